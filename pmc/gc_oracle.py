"""Invariant monitors for gen_coords executions: the event trace recorded by the seams is mirrored into a plain
dict of positions and judged with brute-force minimum-image arithmetic."""
import math
import numpy as np
from . import gc_harness as G

EPS = 1e-9


def min_image(v, box):
    v = np.asarray(v, dtype=float)
    box = np.asarray(box, dtype=float)
    return v - box * np.round(v / box)


def mol_layout(sysdef):
    """per molecule index: (type name, n residues, adjacency)"""
    out = []
    for name, count in sysdef["molecules"]:
        tdef = G.get_typedef(sysdef, name)
        n = len(tdef["res"])
        adj = {i: set() for i in range(n)}
        for a, b in tdef["edges"]:
            adj[a].add(b)
            adj[b].add(a)
        for _ in range(count):
            out.append((name, n, adj, tdef))
    return out


def lj_force(vec, sigma):
    r = np.linalg.norm(vec)
    return 24.0 / r * (2 * (sigma / r) ** 12 - (sigma / r) ** 6) * vec / r


def check_events(sysdef, res, grid=None):
    """returns list of (owner, assertion, message, tags)"""
    out = []
    ev = res["events"]
    kw = dict(sysdef.get("kwargs", {}))
    step_fudge = kw.get("step_fudge", 1.0)
    max_force = kw.get("max_force", 5 * 10 ** 4.0)
    ignore = set(kw.get("ignore", []))
    layout = mol_layout(sysdef)
    sizes = res.get("sizes", {})
    pos = {}
    supplied = {}
    box = cut = None
    accepted = {}           # mol -> snapshot
    cur_attempt = {}        # mol -> dict(start, path, build, placed)
    pending_step = None
    nattempt = {}
    extra_adj = {}          # ligand nodes etc: learnt from step events (prev is a neighbour)

    def bad(owner, assertion, msg, tags=()):
        if len(out) < 30:
            out.append((owner, assertion, msg, list(tags)))

    def same(a, b):
        return a is not None and b is not None and np.allclose(a, b, atol=1e-12, rtol=0)

    def check_frozen(where, m=None, keys=()):
        # positions only change through add / remove events, so it suffices to look at the molecule an event touches
        if m in accepted:
            for k in keys:
                if not same(pos.get((m, k)), accepted[m].get(k)):
                    bad("C17", "accepted-molecules-never-move",
                        f"{where}: residue {(m, k)} of accepted molecule changed {accepted[m].get(k)} -> {pos.get((m, k))}")

    for e in ev:
        kind = e[0]
        if kind == "engine":
            pos = {k: np.array(v) for k, v in e[1].items()}
            supplied = {k: np.array(v) for k, v in e[1].items()}
            box, cut = np.array(e[2]), e[3]
        elif kind == "attempt":
            m, start = e[1], np.array(e[2])
            nattempt[m] = nattempt.get(m, 0) + 1
            cur_attempt[m] = dict(start=start, path=None, placed=[])
            if m in accepted:
                bad("C17", "accepted-molecules-never-move", f"molecule {m} attempted again after it was accepted")
            # at every new attempt: supplied residues untouched, nothing else of this molecule positioned
            for (mm, k), p in supplied.items():
                if mm == m and not same(pos.get((mm, k)), p):
                    bad("C04", "failed-attempt-keeps-supplied-coordinates",
                        f"attempt {nattempt[m]} of molecule {m}: supplied residue {k} has position {pos.get((mm, k))}, supplied {p}",
                        ["retry-with-supplied-residues"])
            for (mm, k) in list(pos):
                if mm == m and (mm, k) not in supplied:
                    bad("C17", "abandoned-attempt-fully-removed", f"attempt {nattempt[m]} of molecule {m} starts with residue {k} still positioned")
            if grid is not None and not any(np.allclose(start, g, atol=1e-12) for g in grid):
                bad("C05", "first-residue-on-grid-point", f"molecule {m} start {start} not a grid point")
        elif kind == "step":
            m, cur, prev = e[1], e[2], e[3]
            pending_step = (m, cur, prev)
            extra_adj.setdefault(m, {}).setdefault(cur, set()).add(prev)
            extra_adj[m].setdefault(prev, set()).add(cur)
            if (m, prev) not in pos:
                bad("C17", "grown-from-positioned-neighbour", f"molecule {m}: residue {cur} grown from {prev}, which has no position",
                    ["retry-with-supplied-residues"] if any(mm == m for mm, _ in supplied) else [])
            if (m, cur) in pos:
                bad("C17", "residue-placed-once", f"molecule {m}: step for residue {cur}, which already has a position")
        elif kind == "path":
            m, path, build = e[1], e[2], e[3]
            cur_attempt[m]["path"] = path
            cur_attempt[m]["build"] = build
        elif kind == "step-check":
            # emitted with the path index: every later build residue must be unpositioned
            m, idx = e[1], e[2]
            att = cur_attempt[m]
            for j in range(idx, len(att["path"])):
                node = att["path"][j][1]
                if att["build"].get(node, True) and (m, node) in pos:
                    bad("C17", "discarded-part-removed-before-continuing",
                        f"molecule {m}: at path step {idx} residue {node} (path step {j}) is still positioned")
        elif kind == "add":
            m, k, p, start = e[1], e[2], np.array(e[3]), e[4]
            if box is not None and (np.any(p < -EPS) or np.any(p >= box + EPS) or not np.all(np.isfinite(p))):
                bad("C05", "inside-the-box", f"residue {(m, k)} placed at {p} outside box {box}")
            if pending_step and pending_step[:2] == (m, k):
                prev = pending_step[2]
                if (m, prev) in pos:
                    want = step_fudge * (sizes.get((m, k), 0) + sizes.get((m, prev), 0)) / 2.0
                    got = np.linalg.norm(min_image(p - pos[(m, prev)], box))
                    if not abs(got - want) <= 1e-9:      # also true for nan / inf
                        bad("C05", "one-step-from-parent", f"residue {(m, k)} at {p}: minimum-image distance {got} to parent {prev} at {pos[(m, prev)]}, step {want}")
            else:
                att = cur_attempt.get(m)
                if att is not None and not same(p, att["start"]):
                    bad("C05", "first-residue-on-grid-point", f"first residue {(m, k)} at {p}, start point {att['start']}")
            # overlap / force against everything positioned
            name, n, adj, tdef = layout[m] if m < len(layout) else (None, 0, {}, None)
            neigh = set(adj.get(k, set())) | extra_adj.get(m, {}).get(k, set())
            f_all, f_core = np.zeros(3), np.zeros(3)
            for (mm, kk), q in pos.items():
                if (mm, kk) == (m, k):
                    continue
                v = min_image(p - q, box)
                r = np.linalg.norm(v)
                if r < 0.1 - EPS:
                    bad("C05", "no-overlap-closer-than-0.1nm", f"residue {(m, k)} at {p} is {r} nm from {(mm, kk)} at {q}")
                    continue
                if mm == m and kk in neigh:
                    continue
                if r < cut - EPS or abs(r - cut) <= EPS:
                    sig = (sizes.get((m, k), 0) + sizes.get((mm, kk), 0)) / 2.0
                    f = lj_force(v, sig)
                    f_all += f
                    if r < cut - EPS:
                        f_core += f
            if min(np.linalg.norm(f_all), np.linalg.norm(f_core)) > max_force * (1 + 1e-9):
                bad("C05", "force-below-maximum", f"residue {(m, k)} accepted at {p} with force {np.linalg.norm(f_core)} > {max_force}")
            pos[(m, k)] = p
            if m in cur_attempt:
                cur_attempt[m]["placed"].append(k)
            pending_step = None
            check_frozen("add", m, [k])
        elif kind == "remove":
            m, keys = e[1], e[2]
            for k in keys:
                pos.pop((m, k), None)
            check_frozen("remove", m, keys)
        elif kind == "attempt-result":
            m, ok = e[1], e[2]
            if ok:
                accepted[m] = {k: pos[(mm, k)].copy() for (mm, k) in pos if mm == m}
        elif kind == "step-result":
            m, k, ok = e[1], e[2], e[3]
            if not ok and (m, k) in pos:
                bad("C17", "failed-step-places-nothing", f"failed step left residue {(m, k)} positioned")
            if ok and (m, k) not in pos:
                bad("C17", "successful-step-places-residue", f"successful step did not position {(m, k)}")
            pending_step = None
    final = dict(pos=pos, supplied=supplied, accepted=accepted, nattempt=nattempt, box=box)
    return out, final
