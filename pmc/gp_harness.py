"""Drives the real gen_params pipeline (processor level and program level) and
returns JSON-able digests of what was built."""
import io, os, sys, json, logging, tempfile, shutil, contextlib
from pathlib import Path
import networkx as nx


def parse_ff(texts):
    """texts: list of (kind, text) with kind in {'ff','itp'}; returns a fresh vermouth ForceField."""
    import vermouth.forcefield
    from polyply.src.ff_parser_sub import read_ff
    from polyply.src.polyply_parser import read_polyply
    ff = vermouth.forcefield.ForceField("verif")
    for kind, text in texts:
        lines = text.splitlines(keepends=True)
        if kind == "ff":
            read_ff(lines, ff)
        else:
            read_polyply(lines, ff)
    return ff


def build_resgraph(rg, key_perm=None, insertion=None, flip=None):
    """rg = dict(n, edges=[[i,j]], resids=[...], resnames=[...], linktype={"i-j": str}, node_attrs={i:{..}})
    key_perm: list mapping canonical node index -> node key used in the graph
    insertion: order in which nodes (canonical indices) are inserted
    flip: set of edge indices inserted as (j,i)"""
    n = rg["n"]
    key_perm = key_perm or list(range(n))
    insertion = insertion or list(range(n))
    g = nx.Graph()
    for i in insertion:
        attrs = dict(resname=rg["resnames"][i], resid=rg["resids"][i])
        attrs.update(rg.get("node_attrs", {}).get(str(i), {}))
        g.add_node(key_perm[i], **attrs)
    for ei, (i, j) in enumerate(rg["edges"]):
        a, b = (j, i) if flip and ei in flip else (i, j)
        attrs = {}
        lt = rg.get("linktype", {}).get(f"{i}-{j}")
        if lt:
            attrs["linktype"] = lt
        g.add_edge(key_perm[a], key_perm[b], **attrs)
    return g


def freeze(x):
    if isinstance(x, dict):
        return tuple(sorted((str(k), freeze(v)) for k, v in x.items()))
    if isinstance(x, (list, tuple)):
        return tuple(freeze(v) for v in x)
    return x


def mol_digest(molecule):
    """atoms in node order, interactions as sorted lists, edges."""
    nodes = list(molecule.nodes)
    pos = {n: i for i, n in enumerate(nodes)}
    atoms = []
    for n in nodes:
        d = molecule.nodes[n]
        atoms.append(dict(key=n, atomname=d.get("atomname"), atype=d.get("atype"), resname=d.get("resname"),
                          resid=d.get("resid"), charge_group=d.get("charge_group"), charge=d.get("charge"),
                          mass=d.get("mass")))
    inter = {}
    for sec, lst in molecule.interactions.items():
        if not lst:
            continue
        inter[sec] = sorted(([a for a in it.atoms], [str(p) for p in it.parameters],
                             {k: v for k, v in it.meta.items()}) for it in lst) if False else \
            [([a for a in it.atoms], [str(p) for p in it.parameters], dict(it.meta)) for it in lst]
    edges = sorted(sorted((a, b)) for a, b in molecule.edges)
    return dict(atoms=atoms, inter=inter, edges=edges, nrexcl=molecule.nrexcl)


class LogCapture(logging.Handler):
    def __init__(self):
        super().__init__(level=logging.DEBUG)
        self.records = []

    def emit(self, record):
        try:
            msg = record.getMessage()
        except Exception:  # noqa
            msg = str(record.msg)
        self.records.append((record.levelname, msg, getattr(record, "args", None)))


@contextlib.contextmanager
def capture_logs():
    handler = LogCapture()
    names = ["polyply", "vermouth"]
    loggers = [logging.getLogger(n) for n in names]
    olds = [(lg.level, lg.propagate) for lg in loggers]
    for lg in loggers:
        lg.addHandler(handler)
        lg.setLevel(logging.DEBUG)
    try:
        yield handler
    finally:
        for lg, (lvl, prop) in zip(loggers, olds):
            lg.removeHandler(handler)
            lg.setLevel(lvl)


def run_processors(ff, graph, mods=None, stop_after=None):
    """returns (meta_molecule, missing list).  mods=None -> ApplyModifications not run"""
    from polyply import MetaMolecule, MapToMolecule, ApplyLinks
    from polyply.src.apply_modifications import ApplyModifications
    from polyply.src.graph_utils import find_missing_edges
    mm = MetaMolecule(graph, force_field=ff, mol_name="mol")
    MapToMolecule(ff).run_molecule(mm)
    if stop_after == "map":
        return mm, None
    ApplyLinks().run_molecule(mm)
    if mods is not None:
        ApplyModifications(modifications=mods, meta_molecule=mm).run_molecule(mm)
    missing = list(find_missing_edges(mm, mm.molecule))
    return mm, missing


@contextlib.contextmanager
def tempdir():
    d = tempfile.mkdtemp(prefix="pmc-", dir=os.environ.get("VERIF_TMP", "/tmp"))
    try:
        yield Path(d)
    finally:
        shutil.rmtree(d, ignore_errors=True)


def write_json_graph(path, graph):
    from networkx.readwrite import json_graph
    data = json_graph.node_link_data(graph, edges="edges") if "edges" in json_graph.node_link_data.__code__.co_varnames \
        else json_graph.node_link_data(graph)
    with open(path, "w") as fh:
        json.dump(data, fh)


def read_itp_plain(path):
    """Checker's own minimal reader of a written .itp: returns dict(name, nrexcl, atoms, inter{sec:[(atoms, params, guard)]})"""
    name = nrexcl = None
    atoms, inter = [], {}
    section, guard = None, None
    with open(path) as fh:
        for raw in fh:
            line = raw.split(";")[0].strip()
            if not line:
                continue
            if line.startswith("["):
                section = line.strip("[] \t")
                continue
            if line.startswith("#ifdef") or line.startswith("#ifndef"):
                guard = tuple(line[1:].split())
                continue
            if line.startswith("#endif"):
                guard = None
                continue
            tok = line.split()
            if section == "moleculetype":
                name, nrexcl = tok[0], int(tok[1])
            elif section == "atoms":
                atoms.append(dict(idx=int(tok[0]), atype=tok[1], resid=int(tok[2]), resname=tok[3], atomname=tok[4],
                                  charge_group=int(tok[5]), charge=float(tok[6]) if len(tok) > 6 else None,
                                  mass=float(tok[7]) if len(tok) > 7 else None))
            else:
                inter.setdefault(section, []).append((tok, guard))
    return dict(name=name, nrexcl=nrexcl, atoms=atoms, inter=inter)


def run_gen_params(workdir, ff_texts, graph=None, seq=None, seq_file_text=None, mods=None, dsdna=False,
                   name="mol", outname="out.itp", lib=None, default_inpath=False):
    """Program-level run.  ff_texts = [(filename, text)].  Returns dict(exc, logs, itp_path, captured, missing_warnings)"""
    import vermouth.gmx.itp as vitp
    from polyply.src import gen_itp
    paths = []
    for fname, text in ff_texts:
        p = workdir / fname
        p.write_text(text)
        paths.append(p)
    seq_file = None
    if graph is not None:
        seq_file = workdir / "seq.json"
        write_json_graph(seq_file, graph)
    elif seq_file_text is not None:
        seq_file = workdir / seq_file_text[0]
        seq_file.write_text(seq_file_text[1])
    out = workdir / outname
    captured = {}
    orig = vitp.write_molecule_itp

    def spy(molecule, outfile, *a, **k):
        captured["mol"] = mol_digest(molecule)
        return orig(molecule, outfile, *a, **k)
    vitp.write_molecule_itp = spy
    exc = None
    argv = sys.argv
    sys.argv = ["polyply", "gen_params"]
    try:
        with capture_logs() as logs, contextlib.redirect_stdout(io.StringIO()):
            try:
                if default_inpath:
                    # the API's own default for inpath (a caller that only names a library)
                    gen_itp.gen_params(name=name, outpath=out, lib=lib, seq=seq, seq_file=seq_file, dsdna=dsdna)
                else:
                    gen_itp.gen_params(name=name, outpath=out, inpath=paths, lib=lib, seq=seq, seq_file=seq_file,
                                       dsdna=dsdna, mods=mods or [])
            except Exception as e:  # noqa
                exc = e
    finally:
        vitp.write_molecule_itp = orig
        sys.argv = argv
        pending = drain_deferred()
    return dict(exc=exc, logs=logs.records, itp_path=out, captured=captured.get("mol"), pending_after=pending)


def drain_deferred():
    """Empties the queue of vermouth's singleton DeferredFileWriter (a failed run leaves its temp file queued) and
    returns the destinations that were still pending."""
    from vermouth.file_writer import DeferredFileWriter
    dfw = DeferredFileWriter()
    pending = []
    while dfw.open_files:
        tmp_path, final_path, mode = dfw.open_files.popleft()
        pending.append(str(final_path))
        try:
            os.remove(tmp_path)
        except OSError:
            pass
    return pending


TOP_TEMPLATE = """[ defaults ]
1 1 no 1.0 1.0
[ atomtypes ]
{atypes}
#include "{itp}"
[ system ]
verif
[ molecules ]
{name} 1
"""


def read_back(workdir, itp_name, atypes, name="mol"):
    from polyply.src.topology import Topology
    lines = "\n".join(f"{t} 1.0 0.0 A 0.1 0.1" for t in sorted(atypes))
    top = workdir / "sys.top"
    top.write_text(TOP_TEMPLATE.format(atypes=lines, itp=itp_name, name=name))
    topology = Topology.from_gmx_topfile(top, "verif")
    return topology
