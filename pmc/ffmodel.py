"""Abstract force-field language for the gen_params family (C01 C02 C10 C11 C13 C14).

A force field is a plain dict built from the block / link tables below.  It is
rendered to vermouth .ff text and (blocks with dangling interactions) to polyply
.itp text, and interpreted by the reference model in ref_genparams.py.
No polyply / vermouth imports here.
"""
import json

# ---------------------------------------------------------------- blocks
# atom: (name, type, charge, mass, charge_group)
# interaction: (atom names, params, meta)


def I(atoms, params, meta=None):
    return (tuple(atoms), tuple(params), dict(meta or {}))


BLOCKS = {
    "A": dict(nrexcl=1,
              atoms=[("BB", "P1", 0.0, 72.0, 1), ("SA", "P2", 0.1, 36.0, 2)],
              inter={"bonds": [I(["BB", "SA"], ["1", "0.31", "1001"])]}),
    "B": dict(nrexcl=1,
              atoms=[("BB", "Q1", -1.0, 45.0, 1)],
              inter={}),
    "C": dict(nrexcl=1,
              atoms=[("BB", "N1", 0.2, 50.0, 1), ("SC1", "N2", 0.3, 51.0, 1), ("SC2", "N3", -0.5, 52.0, 2)],
              inter={"bonds": [I(["BB", "SC1"], ["1", "0.32", "1002"]), I(["SC1", "SC2"], ["1", "0.33", "1003"])],
                     "angles": [I(["BB", "SC1", "SC2"], ["2", "120", "25"])],
                     "exclusions": [I(["BB", "SC2"], [])],
                     "pairs": [I(["BB", "SC2"], ["1"])]}),
    "D": dict(nrexcl=1,
              atoms=[("BB", "C1", 0.0, 12.0, 1), ("D1", "C2", 0.4, 13.0, 2), ("D2", "C3", -0.4, 14.0, 3),
                     ("D3", "C4", 0.25, 15.0, 3)],
              inter={"bonds": [I(["BB", "D1"], ["1", "0.15", "2001"]), I(["D1", "D2"], ["1", "0.16", "2002"]),
                               I(["D2", "D3"], ["1", "0.17", "2003"])],
                     "angles": [I(["BB", "D1", "D2"], ["1", "109", "300"], {"ifdef": "FLEX"})],
                     "dihedrals": [I(["BB", "D1", "D2", "D3"], ["9", "0", "1.5", "1"], {"version": 1}),
                                   I(["BB", "D1", "D2", "D3"], ["9", "180", "2.5", "2"], {"version": 2})],
                     "constraints": [I(["BB", "D2"], ["1", "0.25"], {"ifndef": "FLEX"})],
                     # one exclusion line with three atoms: D2 is excluded from BB and from D3, BB and D3 not from each other
                     "exclusions": [I(["D2", "BB", "D3"], [])]}),
    "E": dict(nrexcl=1,     # shares the atom names BB / SC1 with block C
              atoms=[("BB", "E1", 0.0, 30.0, 1), ("SC1", "E2", 0.05, 31.0, 2)],
              inter={"bonds": [I(["BB", "SC1"], ["1", "0.34", "1004"])]}),
    # protein-named blocks for terminal modifications
    "ALA": dict(nrexcl=1,
                atoms=[("BB", "P4", 0.0, 72.0, 1), ("SC1", "C3", 0.0, 36.0, 2)],
                inter={"bonds": [I(["BB", "SC1"], ["1", "0.27", "3001"])]}),
    "GLY": dict(nrexcl=1,
                atoms=[("BB", "P5", 0.0, 72.0, 1)],
                inter={}),
}


def block_with_nrexcl(name, nrexcl):
    b = dict(BLOCKS[name])
    b["nrexcl"] = nrexcl
    return b


ALLNAMES = '"A|B|C|D"'

# ---------------------------------------------------------------- links
# key = prefix + atom name.  resname: list of names (choice) applied to every link atom unless overridden
LINKS = {
    "bb": dict(resname=["A", "B", "C", "D"],
               inter={"bonds": [I(["BB", "+BB"], ["1", "0.40", "500"])]}),
    "bbA": dict(resname=["A"],   # later definition of the same atoms: must win for A-A pairs
                inter={"bonds": [I(["BB", "+BB"], ["1", "0.47", "700"])]}),
    "ang3": dict(resname=["A", "B", "C", "D"],
                 inter={"angles": [I(["BB", "+BB", "++BB"], ["2", "130", "40"])]}),
    "dih4": dict(resname=["A", "B"],
                 inter={"dihedrals": [I(["BB", "+BB", "++BB", "+++BB"], ["1", "60", "3", "2"])]}),
    "gt": dict(resname=["A", "B", "C", "D"],
               inter={"bonds": [I(["BB", ">BB"], ["6", "0.55", "90"], {"edge": True})]}),
    "lt_sa": dict(resname=None,
                  atoms={"SA": {"resname": "A"}, "<BB": {"resname": "A|B|C|D"}},
                  inter={"bonds": [I(["SA", "<BB"], ["1", "0.36", "360"])]}),
    "a_c": dict(resname=None,      # residue-name specific atoms
                atoms={"SA": {"resname": "A"}, "+SC1": {"resname": "C"}},
                inter={"bonds": [I(["SA", "+SC1"], ["1", "0.38", "380"])]}),
    "lab": dict(resname=["A", "B", "C", "D"],    # extra attribute selector carried by the residue-graph node
                atoms={"BB": {"tag": "x"}},
                inter={"constraints": [I(["BB", "+BB"], ["1", "0.41"])]}),
    "repl": dict(resname=["A", "B", "C", "D"],   # replace of an attribute no selector reads
                 atoms={"+BB": {"replace": {"charge": 0.75}}},
                 inter={"bonds": [I(["BB", "+BB"], ["1", "0.40", "500"])]}),
    "edge_only": dict(resname=None,
                      atoms={"SA": {"resname": "A"}, "-SC2": {"resname": "C"}},
                      inter={}, edges=[("SA", "-SC2", {})]),
    "nonedge": dict(resname=["A", "B", "C", "D"],
                    inter={"bonds": [I(["BB", "++BB"], ["1", "0.70", "70"], {"edge": False})]},
                    edges=[],
                    # applies to residues i, i+2 ... only when BB(i) has no bonded BB neighbour in residue i+1
                    non_edges=[("BB", "+BB")],
                    extra_edges_for_resgraph=None),
    "pat": dict(resname=["A", "B", "C", "D"],
                inter={"angles": [I(["BB", "+BB", "+BB"], ["1", "1", "1"])]},  # placeholder replaced below
                ),
    "ver2": dict(resname=["A", "B", "C", "D"],
                 inter={"dihedrals": [I(["BB", "+BB", "+BB", "BB"], [], {})]}),  # placeholder replaced below
    "circ": dict(resname=["A", "B", "C", "D"],
                 atoms={"BB": {}, ">BB": {}},
                 inter={"bonds": [I(["BB", ">BB"], ["1", "0.35", "10000"], {"edge": False, "group": "circle"})]},
                 edges=[("BB", ">BB", {"linktype": "circle"})]),
    "star": dict(resname=["A", "B", "C", "D"],
                 inter={"pairs": [I(["BB", "*BB"], ["1", "0.1", "0.2"])]}, edges=[("BB", "*BB", {})]),
    "rm": dict(resname=None,     # removes the side atom of an A that follows any residue
               atoms={"BB": {}, "+SA": {"resname": "A", "replace": {"atomname": None}}},
               inter={}, edges=[("BB", "+SA", {})]),
}
# condensation-like link: bonds BB to the next residue and removes the side atom bonded to that BB (a leaving group in the
# residue that makes the bond, not in the one it bonds to)
LINKS["rm0"] = dict(resname=["A", "B", "C", "D"], atoms={"SA": {"replace": {"atomname": None}}},
                    inter={"bonds": [I(["BB", "+BB"], ["1", "0.44", "440"])]})
# residue names given on some atoms only: BB / +BB carry them, SA / +SC1 (same residues) do not
LINKS["partial"] = dict(resname=None, atoms={"BB": {"resname": "A"}, "+BB": {"resname": "C"}},
                        inter={"bonds": [I(["BB", "+BB"], ["1", "0.37", "7000"])],
                               "angles": [I(["SA", "BB", "+BB"], ["2", "125", "25"]), I(["BB", "+BB", "+SC1"], ["2", "135", "35"])]})
# explicit exclusion defined by a link (third residue), no edge of its own
LINKS["exl"] = dict(resname=["A", "B", "C", "D"], inter={"exclusions": [I(["BB", "++BB"], [])]})
# replace combined with a veto: the attribute may only change where the link really applies
LINKS["startpatch"] = dict(resname=["A", "B", "C", "D"], atoms={"BB": {"replace": {"charge": 0.9}}},
                           inter={"constraints": [I(["BB", "+BB"], ["1", "0.43"], {"edge": False})]},
                           non_edges=[("BB", "-BB", {})])
LINKS["repl_pat"] = dict(resname=["A", "B", "C", "D"], atoms={"+BB": {"replace": {"mass": 99.0}}},
                         inter={"angles": [I(["BB", "+BB", "+BB"], [], {})]})
# pattern link: bond SC between BB and +BB restricted by [ patterns ] rows to (A,B) or (C,A)
LINKS["pat"] = dict(resname=["A", "B", "C", "D"],
                    inter={"constraints": [I(["BB", "+BB"], ["2", "0.44"])]},
                    patterns=[[("BB", {"resname": "A"}), ("+BB", {"resname": "B"})],
                              [("BB", {"resname": "C"}), ("+BB", {"resname": "A"})]])
LINKS["ver2"] = dict(resname=["A", "B", "C", "D"],
                     inter={"bonds": [I(["BB", "+BB"], ["1", "0.40", "500"])],
                            "angles": [I(["BB", "+BB", "++BB"], ["10", "100", "10"], {"version": 1}),
                                       I(["BB", "+BB", "++BB"], ["10", "140", "20"], {"version": 2})]})
LINKS["nonedge"] = dict(resname=["A", "B", "C", "D"],
                        inter={"pairs": [I(["BB", "++BB"], ["1", "0.70", "70"])]},
                        edges=[("BB", "++BB", {})],
                        non_edges=[("BB", "+BB", {})])
LINKS["repl_pat"] = dict(resname=["A", "B", "C", "D"], atoms={"+BB": {"replace": {"mass": 99.0}}},
                         inter={"constraints": [I(["BB", "+BB"], ["2", "0.46"])]},
                         patterns=[[("BB", {"resname": "A"}), ("+BB", {"resname": "B"})],
                                   [("BB", {"resname": "C"}), ("+BB", {"resname": "A"})]])
# residue name left open on one side: the unnamed residue matches a residue of any name (also one no atom of the link names)
LINKS["open2"] = dict(resname=None, atoms={"BB": {"resname": "A"}, "+BB": {}},
                      inter={"bonds": [I(["BB", "+BB"], ["1", "0.39", "3900"])]})
LINKS["open3"] = dict(resname=None, atoms={"-BB": {}, "BB": {"resname": "B"}, "+BB": {}},
                      inter={"angles": [I(["-BB", "BB", "+BB"], ["2", "115", "15"])]})
# a replacement whose new value is zero (neutralising the charged side atom of A where it is bonded to the next residue)
LINKS["repl0"] = dict(resname=None, atoms={"SA": {"resname": "A", "replace": {"charge": 0.0}}, "+BB": {}},
                      inter={"bonds": [I(["SA", "+BB"], ["1", "0.33", "330"])]})
# the residue connection comes from [ edges ] only (pairs make no edge), written with the order as an attribute: BB BB {"order": 1}
LINKS["pair_edge_attr"] = dict(resname=["A", "B", "C", "D"], inter={"pairs": [I(["BB", "+BB"], ["1", "0.15", "0.25"])]},
                               edges=[("BB", "+BB", {})], edge_spelling="attr")
for _l in LINKS.values():
    _l.pop("extra_edges_for_resgraph", None)

EDGE_SECTIONS = ("bonds", "angles", "dihedrals", "cmap", "constraints")

# ---------------------------------------------------------------- modifications (terminal)
MODS = {
    "N-ter": dict(atoms=[("BB", {"replace": {"atype": "Qd", "charge": 1.0}})], inter={}),
    "C-ter": dict(atoms=[("BB", {"replace": {"atype": "Qa", "charge": -1.0}})], inter={}),
    "cap": dict(atoms=[("BB", {"replace": {"mass": 80.0}}), ("SC1", {})],
                inter={"bonds": [I(["BB", "SC1"], ["1", "0.29", "999"], {"comment": "cap"})]}),
}


def split_key(key):
    i = 0
    while i < len(key) and key[i] in "+-<>*":
        i += 1
    return key[:i], key[i:]


def order_of(prefix):
    if prefix == "":
        return 0
    if set(prefix) == {"+"}:
        return len(prefix)
    if set(prefix) == {"-"}:
        return -len(prefix)
    return prefix      # '>', '>>', '<', '*', ...


# ---------------------------------------------------------------- rendering
def _meta_str(meta):
    return (" " + json.dumps(meta)) if meta else ""


def render_block_ff(name, blk):
    out = ["[ moleculetype ]", f"{name} {blk['nrexcl']}", "[ atoms ]"]
    for i, (an, at, q, m, cg) in enumerate(blk["atoms"], 1):
        out.append(f"{i} {at} 1 {name} {an} {cg} {q} {m}")
    for sec, inters in blk["inter"].items():
        if not inters:
            continue
        out.append(f"[ {sec} ]")
        for atoms, params, meta in inters:
            out.append(" ".join(atoms) + " " + " ".join(params) + _meta_str(meta))
    return "\n".join(out) + "\n"


def render_link_ff(link):
    out = ["[ link ]"]
    rn = link["resname"]
    if rn:
        out.append('resname "' + "|".join(rn) + '"')
    if link.get("atoms"):
        out.append("[ atoms ]")
        for key, attrs in link["atoms"].items():
            out.append(f"{key} {json.dumps(attrs)}")
    for sec, inters in link.get("inter", {}).items():
        if not inters:
            continue
        out.append(f"[ {sec} ]")
        for atoms, params, meta in inters:
            out.append(" ".join(atoms) + " " + " ".join(params) + _meta_str(meta))
    if link.get("edges"):
        out.append("[ edges ]")
        for a, b, attrs in link["edges"]:
            if link.get("edge_spelling") == "attr":
                # the other spelling of an atom of another residue: its order as an attribute instead of a prefix
                pre, name = split_key(b)
                if pre and set(pre) <= {"+"} or pre and set(pre) <= {"-"}:
                    b = name + " " + json.dumps({"order": order_of(pre)})
            out.append(f"{a} {b}" + _meta_str(attrs))
    if link.get("non_edges"):
        out.append("[ non-edges ]")
        for a, b, attrs in link["non_edges"]:
            out.append(f"{a} {b}" + _meta_str(attrs))
    for level, text in link.get("log", []):
        out.append(f"[ {level} ]")
        out.append(text)
    if link.get("patterns"):
        out.append("[ patterns ]")
        for row in link["patterns"]:
            out.append(" ".join(f"{k} {json.dumps(a)}" for k, a in row))
    return "\n".join(out) + "\n"


def render_mod_ff(name, mod):
    out = ["[ modification ]", name, "[ atoms ]"]
    for an, attrs in mod["atoms"]:
        out.append(f"{an} {json.dumps(attrs)}")
    for sec, inters in mod["inter"].items():
        out.append(f"[ {sec} ]")
        for atoms, params, meta in inters:
            out.append(" ".join(atoms) + " " + " ".join(params) + _meta_str(meta))
    return "\n".join(out) + "\n"


def render_ff(spec):
    """spec = dict(blocks={name: blk}, links=[link,...], mods={name: mod})"""
    parts = []
    for name, blk in spec["blocks"].items():
        parts.append(render_block_ff(name, blk))
    for link in spec["links"]:
        parts.append(render_link_ff(link))
    for name, mod in spec.get("mods", {}).items():
        parts.append(render_mod_ff(name, mod))
    return "\n".join(parts)


def render_block_itp(name, blk, dangling=None):
    """polyply .itp syntax; dangling = {section: [(indices incl. >= natoms, params, meta)]}"""
    idx = {a[0]: i + 1 for i, a in enumerate(blk["atoms"])}
    out = ["[ moleculetype ]", f"{name} {blk['nrexcl']}", "[ atoms ]"]
    for i, (an, at, q, m, cg) in enumerate(blk["atoms"], 1):
        out.append(f"{i} {at} 1 {name} {an} {cg} {q} {m}")
    secs = {}
    for sec, inters in blk["inter"].items():
        for atoms, params, meta in inters:
            secs.setdefault(sec, []).append(([idx[a] for a in atoms], params, meta))
    for sec, inters in (dangling or {}).items():
        for atoms, params, meta in inters:
            secs.setdefault(sec, []).append((list(atoms), params, meta))
    for sec, inters in secs.items():
        out.append(f"[ {sec} ]")
        open_guard = None
        for atoms, params, meta in inters:
            guard = None
            for g in ("ifdef", "ifndef"):
                if g in meta:
                    guard = (g, meta[g])
            if guard != open_guard:
                if open_guard:
                    out.append("#endif")
                if guard:
                    out.append(f"#{guard[0]} {guard[1]}")
                open_guard = guard
            out.append(" ".join(map(str, atoms)) + " " + " ".join(params))
        if open_guard:
            out.append("#endif")
    return "\n".join(out) + "\n"


# ---------------------------------------------------------------- composite links: base bond x pairs of modifiers
ORDERS = ["+", ">", "<", "*", "++"]
MODIFIERS = ["repl", "rm", "nonedge", "pat", "tag", "ver", "explicit-edge", "atomres", "meta"]


def composite_link(order, mods):
    """bond BB - <order>BB with a set of modifiers (each a feature of the link language)"""
    other = order + "BB"
    p = str(ORDERS.index(order) + 1)
    link = dict(resname=["A", "B", "C", "D"], atoms={}, inter={"bonds": [I(["BB", other], ["1", "0.5" + p, "5" + p + "0"])]})
    meta = link["inter"]["bonds"][0][2]
    if "atomres" in mods:
        link["resname"] = None
        link["atoms"]["BB"] = {"resname": "A|C"}
        link["atoms"][other] = {"resname": "A|B|C|D"}
    if "repl" in mods:
        link["atoms"].setdefault(other, {})["replace"] = {"charge": 0.66}
    if "tag" in mods:
        link["atoms"].setdefault("BB", {})["tag"] = "x"
    if "rm" in mods:
        link["atoms"][order + "SA"] = {"resname": "A", "replace": {"atomname": None}}
        link.setdefault("edges", []).append(("BB", order + "SA", {}))
    if "ver" in mods:
        meta["version"] = 1
        link["inter"]["bonds"].append(I(["BB", other], ["1", "0.9" + p, "9" + p + "0"], {"version": 2}))
    if "meta" in mods:
        meta["ifdef"] = "FLEX"
        meta["group"] = "composite"
    if "pat" in mods:
        link["patterns"] = [[("BB", {"resname": "A"}), (other, {"resname": "B"})], [("BB", {"resname": "C"}), (other, {"resname": "A"})],
                            [("BB", {"resname": "A"}), (other, {"resname": "A"})]]
    if "nonedge" in mods or "explicit-edge" in mods:
        for it in link["inter"]["bonds"]:
            it[2]["edge"] = False
    if "explicit-edge" in mods:
        link.setdefault("edges", []).append(("BB", other, {}))
    if "nonedge" in mods:
        # veto when BB already has a bonded BB neighbour in the previous residue; the link makes no edge of its own
        link["non_edges"] = [("BB", "-BB", {})]
        link["edges"] = [e for e in link.get("edges", []) if e[1] != other]
    if not link["atoms"]:
        link.pop("atoms")
    return link


def composite_names():
    import itertools
    out = []
    for order in ORDERS:
        for r in (1, 2):
            for mods in itertools.combinations(MODIFIERS, r):
                if "nonedge" in mods and "explicit-edge" in mods:
                    continue
                out.append("cmp:" + order + ":" + "+".join(mods))
    return out


ORD3_PREFIXES = ["", "+", "++", "-", ">", ">>", "<", "<<", "*", "**"]


def _ord_class(p):
    return "n0" if p == "" else "n" if p[0] in "+-" else "g" if p[0] in "<>" else "s"


def ord3_names():
    """angle links listing three residues in every order of appearance, over every triple of order prefixes whose pairwise
    relation vermouth's order table defines (numeric-numeric, reference-relative, relative-relative, reference-star, star-star)"""
    import itertools
    out = []
    for tri in itertools.permutations(ORD3_PREFIXES, 3):
        cls = {_ord_class(p) for p in tri}
        if cls <= {"n0", "n"} or cls <= {"n0", "g"} or cls <= {"n0", "s"}:
            out.append("ord3:" + ",".join(tri))
    return out


def ord3_link(prefixes):
    i = ORD3_PREFIXES
    par = "".join(str(i.index(p)) for p in prefixes)
    return dict(resname=["A", "B", "C", "D"], inter={"angles": [I([p + "BB" for p in prefixes], ["2", "1" + par, "4" + par])]})


# a link that rewrites an attribute another link selects by (selection is by the attributes of the block, whatever links did before)
EXTRA_LINKS = {
    # removes the only atom of a residue B that follows any residue: B is left without atoms, its residue-graph edges cannot be
    # realised and have to be reported
    "rm_all": dict(resname=None, atoms={"BB": {}, "+BB": {"resname": "B", "replace": {"atomname": None}}},
                   inter={}, edges=[("BB", "+BB", {})]),
    "repl_type": dict(resname=["A", "B", "C", "D"], atoms={"+BB": {"replace": {"atype": "ZZ"}}},
                      inter={"bonds": [I(["BB", "+BB"], ["1", "0.48", "480"])]}),
    # two untagged terms on the same atoms in a .ff link (the later one counts) - must not depend on other files being read
    "dup2": dict(resname=["A", "B", "C", "D"],
                 inter={"dihedrals": [I(["SA", "BB", "+BB", "+SA"], ["9", "0", "1.5", "1"]), I(["SA", "BB", "+BB", "+SA"], ["9", "180", "2.5", "2"])]}),
    # a link that, next to the bond to the following residue, closes a ring inside its own residue (C: BB-SC2)
    "intra": dict(resname=None, atoms={"BB": {"resname": "C"}, "SC2": {"resname": "C"}, "+BB": {}},
                  inter={"bonds": [I(["BB", "+BB"], ["1", "0.46", "460"]), I(["BB", "SC2"], ["1", "0.21", "2100"])]}),
    "sel_type": dict(resname=["A", "B", "C", "D"], atoms={"+BB": {"atype": "P1"}},
                     inter={"angles": [I(["BB", "+BB", "++BB"], ["2", "140", "14"])]}),
}


def get_link(name):
    if name in EXTRA_LINKS:
        return EXTRA_LINKS[name]
    if name.startswith("ord3:"):
        return ord3_link(name[5:].split(","))
    if name.startswith("cmp:"):
        _, order, mods = name.split(":")
        return composite_link(order, mods.split("+"))
    return LINKS[name]
