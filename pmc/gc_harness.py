"""gen_coords harness: renders small systems (topology, build file, grid, input structure), runs the real
gen_coords under the seams and returns events + outputs."""
import io, os, sys, contextlib
from pathlib import Path
import numpy as np
from . import seams
from .gp_harness import tempdir, capture_logs, drain_deferred
from .explore_choice import Horizon, ReplayDivergence

# ------------------------------------------------------------------ molecule types
# residues: list of (resname, [atomnames]); edges: residue index pairs; intra-residue atoms are bonded as a chain
TYPES = {
    "W": dict(res=[("W", ["w"])], edges=[]),
    # a one-residue molecule whose residue name is the conventional water name (structure readers like to drop it)
    "SOL": dict(res=[("SOL", ["w"])], edges=[]),
    "CH2": dict(res=[("S", ["a"]), ("S", ["a"])], edges=[(0, 1)]),
    "CH3": dict(res=[("S", ["a"]), ("S", ["a"]), ("S", ["a"])], edges=[(0, 1), (1, 2)]),
    "CH4": dict(res=[("S", ["a"]), ("B", ["b"]), ("S", ["a"]), ("B", ["b"])], edges=[(0, 1), (1, 2), (2, 3)]),
    "CH5": dict(res=[("S", ["a"])] * 5, edges=[(0, 1), (1, 2), (2, 3), (3, 4)]),
    "CH6": dict(res=[("S", ["a"])] * 6, edges=[(i, i + 1) for i in range(5)]),
    # longer than 10 residues: BuildSystem consolidates the search trees after such a molecule
    "CH11": dict(res=[("S", ["a"])] * 11, edges=[(i, i + 1) for i in range(10)]),
    "BR4": dict(res=[("S", ["a"]), ("S", ["a"]), ("S", ["a"]), ("B", ["b"])], edges=[(0, 1), (1, 2), (1, 3)]),
    "BR5": dict(res=[("S", ["a"])] * 5, edges=[(0, 1), (1, 2), (1, 3), (3, 4)]),
    "RING3": dict(res=[("S", ["a"])] * 3, edges=[(0, 1), (1, 2), (0, 2)]),
    "RING4": dict(res=[("S", ["a"])] * 4, edges=[(0, 1), (1, 2), (2, 3), (0, 3)]),
    "RINGB4": dict(res=[("B", ["b"])] * 4, edges=[(0, 1), (1, 2), (2, 3), (0, 3)]),      # the same ring of 1.0 nm residues
    "RING5": dict(res=[("S", ["a"])] * 5, edges=[(0, 1), (1, 2), (2, 3), (3, 4), (0, 4)]),
    "RING6": dict(res=[("S", ["a"])] * 6, edges=[(0, 1), (1, 2), (2, 3), (3, 4), (4, 5), (0, 5)]),
    # a ring with a tail (one cycle): tail at the far side of the ring / at the first residue
    "LASSO": dict(res=[("S", ["a"])] * 6, edges=[(0, 1), (1, 2), (2, 3), (0, 3), (2, 4), (4, 5)]),
    "LASSO0": dict(res=[("S", ["a"])] * 6, edges=[(0, 1), (1, 2), (2, 3), (0, 3), (0, 4), (4, 5)]),
    # a capped first residue followed by residues of a plain type (for -split pieces that reuse an existing residue name)
    "CAP4": dict(res=[("H", ["x", "y", "z"]), ("S", ["a"]), ("S", ["a"]), ("S", ["a"])], edges=[(0, 1), (1, 2), (2, 3)]),
    "DI3": dict(res=[("D", ["p", "q"]), ("D", ["p", "q"]), ("D", ["p", "q"])], edges=[(0, 1), (1, 2)]),
    "MID7": dict(res=[("S", ["a"]), ("S", ["a"]), ("S", ["a"]), ("K", ["k"]), ("S", ["a"]), ("S", ["a"]), ("S", ["a"])],
                 edges=[(i, i + 1) for i in range(6)]),
    # a di-block numbered per block: residue ids restart, residues are told apart by (resid, resname)
    "DUPB": dict(res=[("S", ["a", "c"]), ("S", ["a", "c"]), ("B", ["a", "c"]), ("B", ["a", "c"])], resids=[1, 2, 1, 2],
                 edges=[(0, 1), (1, 2), (2, 3)]),
    "MIX3": dict(res=[("S", ["a"]), ("D", ["p", "q"]), ("T", ["x", "y", "z"])], edges=[(0, 1), (1, 2)]),
    # the atoms of the first residue are not contiguous in [ atoms ]: its second atom (a cap) is listed after the other residues
    "ILV": dict(res=[("D", ["p", "q"]), ("S", ["a"]), ("S", ["a"])], edges=[(0, 1), (1, 2)],
                listing=[[0, "p"], [1, "a"], [2, "a"], [0, "q"]]),
}
DEFAULT_VOLUMES = {"SOL": 0.5, "W": 0.5, "S": 0.5, "B": 1.0, "D": 0.5, "T": 1.0, "K": 0.5}
BOND_LEN = 0.3


def type_atoms(tdef):
    """[(atom index(1-based), resid, resname, atomname)], bonds [(i,j)]"""
    atoms, bonds, first = [], [], {}
    idx = 0
    intra = tdef.get("intra")     # optional {atom name: [bonded atom names]} shared by all residues: bonds by name, not by listing order
    resids = tdef.get("resids") or list(range(1, len(tdef["res"]) + 1))    # residue ids need not be unique across residue names
    for r, (resname, names) in enumerate(tdef["res"]):
        prev = None
        byname = {}
        for an in names:
            idx += 1
            atoms.append((idx, resids[r], resname, an))
            byname[an] = idx
            if prev is None:
                first[r] = idx
            elif not intra or not set(names) & set(intra):
                bonds.append((prev, idx))
            prev = idx
        if intra and set(names) & set(intra):
            first[r] = byname[tdef.get("anchor", names[0])] if tdef.get("anchor") in byname else first[r]
            for a, others in intra.items():
                for b in others:
                    if a in byname and b in byname:
                        bonds.append((byname[a], byname[b]))
    for a, b in tdef["edges"]:
        bonds.append((first[a], first[b]))
    if tdef.get("listing"):
        # the topology lists the atoms in another order than residue by residue: [[residue index, atom name], ...]
        keys = [(r, an) for r, (_, names) in enumerate(tdef["res"]) for an in names]
        new = {keys.index(tuple(k)) + 1: i + 1 for i, k in enumerate(tdef["listing"])}
        atoms = sorted(((new[idx], resid, resname, an) for idx, resid, resname, an in atoms))
        bonds = [(new[a], new[b]) for a, b in bonds]
    return atoms, bonds


def atom_residue_indices(tdef):
    """residue index (position in tdef['res']) of every atom, in the order the topology lists the atoms"""
    if tdef.get("listing"):
        return [k[0] for k in tdef["listing"]]
    return [r for r, (_, names) in enumerate(tdef["res"]) for _ in names]


TYPE_MASS = 36.0


def atom_mass_columns(sysdef, k):
    """(text of the optional charge / mass columns, mass that counts) for the k-th atom (1-based) of a molecule type.
    mass_mode 'mixed': every third atom has an explicit mass of 0 (virtual-site style), every third has no mass column
    (the atom type's mass counts), the rest 72."""
    if sysdef.get("mass_mode") != "mixed":
        return " 0.0 72.0", 72.0
    if k % 3 == 0:
        return " 0.0 0.0", 0.0
    if k % 3 == 2:
        return "", TYPE_MASS
    return " 0.0 72.0", 72.0


def total_mass(sysdef):
    tot = 0.0
    for name, count in sysdef["molecules"]:
        atoms, _ = type_atoms(get_typedef(sysdef, name))
        tot += count * sum(atom_mass_columns(sysdef, idx)[1] for idx, _, _, _ in atoms)
    return tot


def render_top(sysdef):
    out = ["[ defaults ]", "1 2 no 1.0 1.0", "[ atomtypes ]", f"P {TYPE_MASS} 0.0 A 0.47 4.0"]
    if sysdef.get("mass_mode") == "mixed":
        # the atom type is defined twice (a force-field value, then the user's): as for grompp the later definition counts
        out.insert(3, "P 99.0 0.0 A 0.47 4.0")
    for name in sysdef["types"]:
        tdef = TYPES[name] if isinstance(name, str) and name in TYPES else None
        tdef = sysdef.get("typedefs", {}).get(name, tdef)
        atoms, bonds = type_atoms(tdef)
        out += ["[ moleculetype ]", f"{name} {sysdef.get('mol_nrexcl', 1)}", "[ atoms ]"]
        for idx, resid, resname, an in atoms:
            out.append(f"{idx} P {resid - (1 if sysdef.get('resid_from_zero') else 0)} {resname} {an} {idx}" + atom_mass_columns(sysdef, idx)[0])
        if bonds:
            out.append("[ bonds ]")
            for a, b in bonds:
                out.append(f"{a} {b} 1 {BOND_LEN} 1000")
    out += ["[ system ]", "verif", "[ molecules ]"]
    for name, count in sysdef["molecules"]:
        out.append(f"{name} {count}")
    return "\n".join(out) + "\n"


def get_typedef(sysdef, name):
    return sysdef.get("typedefs", {}).get(name) or TYPES[name]


def expand_atoms(sysdef):
    """reference expansion of [ molecules ]: list of (mol index, mol name, resid, resname, atomname)"""
    out = []
    mi = 0
    for name, count in sysdef["molecules"]:
        atoms, _ = type_atoms(get_typedef(sysdef, name))
        for _ in range(count):
            for idx, resid, resname, an in atoms:
                out.append((mi, name, resid, resname, an))
            mi += 1
    return out


def render_bld(sysdef):
    vols = dict(DEFAULT_VOLUMES)
    vols.update(sysdef.get("volumes", {}))
    used = {rn for name in sysdef["types"] for rn, _ in get_typedef(sysdef, name)["res"]}
    out = list(sysdef.get("bld_pre", []))
    if not sysdef.get("no_volumes"):
        out += ["[ volumes ]"] + [f"{k} {v}" for k, v in vols.items() if k in used]
    out += sysdef.get("bld_extra", [])
    return "\n".join(out) + "\n"


def write_gro(path, atoms, coords, box):
    """atoms: list of (resid, resname, atomname); coords: list of 3-tuples"""
    with open(path, "w") as fh:
        fh.write("verif input\n%5d\n" % len(atoms))
        for i, ((resid, resname, an), xyz) in enumerate(zip(atoms, coords), 1):
            fh.write("%5d%-5s%5s%5d%8.3f%8.3f%8.3f\n" % (resid % 100000, resname, an, i % 100000, *xyz))
        fh.write("%10.5f%10.5f%10.5f\n" % tuple(box))


def read_gro(path):
    lines = Path(path).read_text().splitlines()
    n = int(lines[1])
    atoms = []
    for ln in lines[2:2 + n]:
        # written by vermouth with precision 7: columns are wider than the fixed format; split from the right
        resid = int(ln[0:5])
        resname = ln[5:10].strip()
        atomname = ln[10:15].strip()
        rest = ln[20:].split()
        xyz = tuple(float(v) for v in rest[:3])
        atoms.append((resid, resname, atomname, xyz, ln))
    box = tuple(float(v) for v in lines[2 + n].split())
    return atoms, box, lines


def expand_input(sysdef, inp):
    """an input given as dict(kind, lattice=dict(count, spacing, origin, per_axis), box): the first `count` atoms of the system
    (molecules of one-atom residues) on a cubic lattice, x fastest - thousands of supplied residues without listing them"""
    if not inp or "lattice" not in inp:
        return inp
    lat = inp["lattice"]
    atoms = [(resid, resname, an) for _, _, resid, resname, an in expand_atoms(sysdef)[:lat["count"]]]
    n, sp, o = lat["per_axis"], lat["spacing"], lat["origin"]
    coords = [(o[0] + sp * (i % n), o[1] + sp * ((i // n) % n), o[2] + sp * (i // (n * n))) for i in range(lat["count"])]
    return dict(kind=inp["kind"], atoms=atoms, coords=coords, box=inp["box"])


def run_gen_coords(sysdef, chooser, workdir=None, **opts):
    """One execution of the real gen_coords.  sysdef keys: types, molecules, box (or None), density, grid (list of points
    or None), volumes, bld_extra, input (dict(kind='c'|'mc', atoms, coords, box)), kwargs for gen_coords (maxiter, nrewind,
    step_fudge, max_force, ignore, cycles, cycle_tol, start, build_res, split, ligands, bfudge).
    Returns dict(exc, events, gro, top, horizon, unowned)."""
    import vermouth.gmx.gro as vgro
    from polyply.src import gen_coords as gcm
    cm = tempdir() if workdir is None else contextlib.nullcontext(workdir)
    with cm as d:
        d = Path(d)
        (d / "sys.top").write_text(sysdef.get("top_text") or render_top(sysdef))
        (d / "sys.bld").write_text(render_bld(sysdef))
        kwargs = dict(toppath=d / "sys.top", outpath=d / "out.gro", name="verif", build=[d / "sys.bld"])
        if sysdef.get("box") is not None:
            kwargs["box"] = np.array(sysdef["box"], dtype=float)
        if sysdef.get("density") is not None:
            kwargs["density"] = sysdef["density"]
        if sysdef.get("grid") is not None:
            np.savetxt(d / "grid.dat", np.array(sysdef["grid"], dtype=float))
            kwargs["grid"] = str(d / "grid.dat")
        inp = expand_input(sysdef, sysdef.get("input"))
        if inp:
            write_gro(d / "in.gro", inp["atoms"], inp["coords"], inp["box"])
            kwargs["coordpath" if inp["kind"] == "c" else "coordpath_meta"] = d / "in.gro"
        inp2 = sysdef.get("input_mc")      # a second structure with residue centres, next to an atom-level 'input'
        if inp2:
            write_gro(d / "in_mc.gro", inp2["atoms"], inp2["coords"], inp2["box"])
            kwargs["coordpath_meta"] = d / "in_mc.gro"
        kwargs.update(sysdef.get("kwargs", {}))
        kwargs.update(opts.pop("kwargs", {}))
        events = []
        captured = {}
        orig_write = vgro.write_gro

        def spy_write(system, file_name, **kw):
            captured["system"] = system
            captured["box"] = kw.get("box")
            return orig_write(system, file_name, **kw)
        res = dict(exc=None, events=events, gro=None, horizon=False, unowned=0, divergence=None)
        argv = sys.argv
        sys.argv = ["polyply", "gen_coords"]
        vgro.write_gro = spy_write
        orig_bm = gcm.Backmap.run_system

        def spy_bm(self, topology, *a, **k):
            out = orig_bm(self, topology, *a, **k)
            res["topology"] = topology
            return out
        gcm.Backmap.run_system = spy_bm
        try:
            with seams.installed(chooser, events=events, **opts) as book, capture_logs() as logs, \
                    contextlib.redirect_stdout(io.StringIO()):
                try:
                    gcm.gen_coords(**kwargs)
                except Horizon:
                    res["horizon"] = True
                except ReplayDivergence as exc:
                    res["divergence"] = str(exc)
                except Exception as exc:  # noqa
                    res["exc"] = exc
            res["unowned"] = book["unowned"]
            res["sizes"] = book.get("sizes", {})
            res["logs"] = logs.records
        finally:
            vgro.write_gro = orig_write
            gcm.Backmap.run_system = orig_bm
            sys.argv = argv
            res["pending_after"] = drain_deferred()
        if (d / "out.gro").exists():
            res["gro"] = read_gro(d / "out.gro")
        if inp:
            res["in_gro"] = read_gro(d / "in.gro")
        if "system" in captured:
            mols = []
            for mol in captured["system"].molecules:
                mols.append([(mol.nodes[n].get("resid"), mol.nodes[n].get("resname"), mol.nodes[n].get("atomname"),
                              None if mol.nodes[n].get("position") is None else tuple(np.asarray(mol.nodes[n]["position"], dtype=float).tolist()))
                             for n in mol.nodes])
            res["final_atoms"] = mols
            res["final_box"] = None if captured["box"] is None else tuple(float(x) for x in captured["box"])
    return res
