"""Finite case sets shared by the gen_params family checks."""
import itertools
from . import ffmodel as F
from .enum_graphs import labelled_graphs

LINK_IDS = list(F.LINKS)
# links whose judgement needs the residue graph to carry labels
NEEDS_TAG = {"lab"}


def needs_tag(links):
    return bool(set(links) & NEEDS_TAG) or any(l.startswith("cmp:") and "tag" in l.split(":")[2].split("+") for l in links)
NEEDS_CIRCLE = {"circ"}


def ff_variants(tier, include_rm=True):
    ids = [l for l in LINK_IDS if include_rm or l not in ("rm", "rm0")]
    out = [dict(links=[])]
    out += [dict(links=[a]) for a in ids]
    # every unordered pair; both orders where the order of definition can matter (same interaction defined twice,
    # vetoes / removals that look at what earlier links did)
    order_sensitive = {"bb", "bbA", "repl", "ver2", "nonedge", "rm", "rm0", "partial", "startpatch"}
    for a, b in itertools.combinations(ids, 2):
        out.append(dict(links=[a, b]))
        if (a in order_sensitive and b in order_sensitive) or tier == "thorough":
            out.append(dict(links=[b, a]))
    if tier == "thorough":
        core = ["bb", "bbA", "ang3", "gt", "a_c", "repl", "nonedge", "pat", "ver2", "circ", "edge_only"]
        for tri in itertools.combinations(core, 3):
            out.append(dict(links=list(tri)))
    return out


def make_spec(variant):
    blocks = {k: F.BLOCKS[k] for k in variant.get("blocks", "ABCDE" if "partial" in variant["links"] else "ABCD")}
    for name, nre in (variant.get("nrexcl") or {}).items():
        blocks[name] = F.block_with_nrexcl(name, nre)
    return dict(blocks=blocks, links=[F.get_link(i) for i in variant["links"]], mods=variant.get("mods") or {})


def names_for(variant, n):
    links = set(variant["links"])
    if any(l.startswith("cmp:") for l in links):
        return ("A", "B", "C") if n <= 3 else ("A", "C")
    if "partial" in links:
        return ("A", "C", "E") if n <= 3 else ("A", "E")
    if n <= 2:
        return ("A", "B", "C", "D")
    if n == 3:
        return ("A", "B", "C")
    if links & {"a_c", "edge_only", "pat", "repl_pat"}:
        return ("A", "C")
    return ("A", "B")


def graphs_for(variant, n, tier, starts=None):
    links = set(variant["links"])
    names = variant.get("names") or names_for(variant, n)
    if starts is None:
        starts = (1, 5) if len(variant["links"]) <= 1 else (1,)
        if tier == "thorough":
            starts = (1, 5) if len(variant["links"]) <= 2 else (1,)
    for es, rank in labelled_graphs(n):
        edges = [list(e) for e in es]
        lt_opts = [None]
        if links & NEEDS_CIRCLE:
            lt_opts = [None] + list(range(len(edges)))
        tag_opts = [()]
        if needs_tag(links):
            tag_opts = [c for r in range(n + 1) for c in itertools.combinations(range(n), r)]
            if n >= 4:
                names = names[:1] if len(names) > 1 and tier == "quick" else names
        for rn in itertools.product(names, repeat=n):
            for lt in lt_opts:
                for tg in tag_opts:
                    for start in starts:
                        rg = dict(n=n, edges=edges, resids=[start + r for r in rank], resnames=list(rn))
                        if lt is not None:
                            e = edges[lt]
                            rg["linktype"] = {f"{e[0]}-{e[1]}": "circle"}
                        if tg:
                            rg["node_attrs"] = {str(i): {"tag": "x"} for i in tg}
                        yield rg
