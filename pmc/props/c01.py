"""C01 - every residue is a verbatim, re-indexed copy of its force-field block."""
from .. import gp_cases, gp_run
from . import c01_extra

PID = "C01"
LEVEL = "exploration"
RULE = ("same finite input set as C02 (4 blocks of 1-4 atoms with bonds/angles/dihedral versions/constraints/pairs/exclusions/"
        "ifdef meta x link subsets x all labelled connected residue graphs n<=4 (5 thorough) x all resname assignments x start "
        "resid {1,5}); plus (i) terminal modifications: protein chains of 1-4 residues over ALA/GLY (and chains with a non-protein "
        "residue) x start id {1,5} x node keys {resid-1, shifted} x {default termini, every single, every ordered pair of "
        "(residue, modification)} with three modifications naming different atom sets, judged differentially (before/after) and "
        "against the reference; (ii) polyply .itp syntax vs .ff syntax for the same blocks (incl. two dihedral terms on the same "
        "atoms) on all labelled graphs n<=3; (iii) multi-residue blocks through from_itp: every sequence of <=4 tokens over {A, B, "
        "M = two-residue block} containing M x start id {1,4} x 3 node-key orders; oracle = reference instantiation: atoms table (name,type,resname,resid,charge group offset,charge,mass) in "
        "residue-id order and the multiset of block interactions per instance; only atoms/interactions the reference marks as "
        "targeted by an applied link may differ. non-trivial = >=2 residues with >=2 different block sizes")
ASSUMPTIONS = ["reference model pmc/ref_genparams.py", "blocks use resid 1 in their own table (library convention)"]
BUDGET = {"quick": 600, "thorough": 3000}


def cases(tier):
    nmax = 4 if tier == "quick" else 5
    seen = set()
    for variant in gp_cases.ff_variants(tier):
        if len(variant["links"]) > 1 and tier == "quick":
            continue      # pairs of links are judged by C02; C01 quick uses no-link and single-link force fields
        if len(variant["links"]) > 2:
            continue      # triples are C02's business
        key = tuple(sorted(variant["links"]))
        if key in seen:
            continue      # block copies do not depend on the order of two links
        seen.add(key)
        for n in range(1, nmax + 1):
            if n == 5 and len(variant["links"]) > 1:
                continue
            yield {"variant": variant, "n": n, "tier": tier}
            if n in (2, 3) and len(variant["links"]) <= 1:
                # residue ids counted from 0 (as polyply itself numbers split residues).  Only graphs whose residue 0 is the
                # one-atom residue B: with several charge groups in residue 0 the dependency's merge_molecule offsets the charge
                # groups of the later residues wrongly (DESIGN section 6, observation)
                yield {"variant": variant, "n": n, "tier": tier, "starts": [0], "first_resname": "B"}
    yield from c01_extra.extra_cases(tier)


def run_case(case):
    if "kind" in case:
        return c01_extra.run_extra(case)
    return gp_run.run_case(case, "C01")
