"""C01 - every residue is a verbatim, re-indexed copy of its force-field block."""
from .. import gp_cases, gp_run

PID = "C01"
LEVEL = "exploration"
RULE = ("same finite input set as C02 (4 blocks of 1-4 atoms with bonds/angles/dihedral versions/constraints/pairs/exclusions/"
        "ifdef meta x link subsets x all labelled connected residue graphs n<=4 (5 thorough) x all resname assignments x start "
        "resid {1,5}); oracle = reference instantiation: atoms table (name,type,resname,resid,charge group offset,charge,mass) in "
        "residue-id order and the multiset of block interactions per instance; only atoms/interactions the reference marks as "
        "targeted by an applied link may differ. non-trivial = >=2 residues with >=2 different block sizes")
ASSUMPTIONS = ["reference model pmc/ref_genparams.py", "blocks use resid 1 in their own table (library convention)"]
BUDGET = {"quick": 600, "thorough": 3000}


def cases(tier):
    nmax = 4 if tier == "quick" else 5
    for variant in gp_cases.ff_variants(tier):
        if len(variant["links"]) > 1 and tier == "quick":
            continue      # pairs of links are judged by C02; C01 quick uses no-link and single-link force fields
        for n in range(1, nmax + 1):
            if n == 5 and len(variant["links"]) > 1:
                continue
            yield {"variant": variant, "n": n, "tier": tier}


def run_case(case):
    return gp_run.run_case(case, "C01")
