"""C14 - mixed exclusion distances are honoured atom by atom."""
import itertools, json
from .. import ffmodel as F, gp_harness as H, gp_cases, gp_run, ref_genparams as R
from ..runner import crash_violation

PID = "C14"
LEVEL = "exploration"
RULE = ("blocks A(2 atoms) C(3, explicit exclusion) D(4-atom chain + constraint) with exclusion distances from {1,2,3}^3 (n<=3) and "
        "{0..4}^2 (A,D; n<=4) x bond-making link sets {bb},{bb,a_c},{gt},{bb,lt_sa},{bb,exl: explicit link exclusion} x all labelled connected residue graphs x all "
        "resname assignments; effective exclusion set of the built molecule (pairs within the molecule-wide nrexcl by BFS over the "
        "observed edges, plus explicit [ exclusions ]) must equal {1<=d(a,b)<=max(excl(block a), excl(block b))} U explicit block "
        "exclusions; uniform inputs keep nrexcl and gain no exclusion; n<=2 also through the written .itp. non-trivial = mixed "
        "exclusion distances and >=1 inter-residue bond")
ASSUMPTIONS = ["consecutive atoms of angles/dihedrals are also bonded in the alphabet, so polyply's edge graph equals the bond graph",
               "reference: pmc/ref_genparams.expected_exclusions"]
BUDGET = {"quick": 420, "thorough": 2400}

LINKSETS = [["bb"], ["bb", "a_c"], ["gt"], ["bb", "lt_sa"], ["bb", "exl"]]


def cases(tier):
    for links in LINKSETS:
        for combo in itertools.product((1, 2, 3), repeat=3):
            nre = dict(zip("ACD", combo))
            for n in (1, 2, 3):
                yield {"variant": {"links": links, "nrexcl": nre, "names": ["A", "C", "D"], "blocks": "ABCD"}, "n": n, "tier": tier}
        vals = range(0, 5)
        for combo in itertools.product(vals, repeat=2):
            nre = dict(zip("AD", combo))
            for n in (2, 3, 4) if tier == "quick" else (2, 3, 4, 5):
                if n == 5 and links != ["bb"]:
                    continue
                yield {"variant": {"links": links, "nrexcl": nre, "names": ["A", "D"], "blocks": "ABCD"}, "n": n, "tier": tier}


def effective(natoms, edges, nrexcl, explicit):
    dist = R.bond_distances(natoms, edges)
    out = set()
    for a in range(natoms):
        for b, d in dist[a].items():
            if a != b and 1 <= d <= nrexcl:
                out.add(frozenset((a, b)))
    for at in explicit:
        for o in at[1:]:
            if o != at[0]:
                out.add(frozenset((at[0], o)))
    return out


def run_one(variant, spec, rg, stats, case1, program):
    viols = []
    try:
        exp = R.build(spec, rg)
    except (R.Unspecified, R.Rejected):
        return viols, False
    tags = []
    if program:
        with H.tempdir() as d:
            r = H.run_gen_params(d, [("ff.ff", F.render_ff(spec))], graph=H.build_resgraph(rg))
            if r["exc"] is not None:
                return [crash_violation(r["exc"], case1, assertion="pipeline-accepts-valid-input")], False
            itp = H.read_itp_plain(r["itp_path"])
        nre = itp["nrexcl"]
        explicit = [[int(x) - 1 for x in tok] for tok, _ in itp["inter"].get("exclusions", [])]
        natoms = len(itp["atoms"])
        kpos = {a["key"]: i for i, a in enumerate(r["captured"]["atoms"])}
        edges = {frozenset((kpos[a], kpos[b])) for a, b in r["captured"]["edges"]}
    else:
        ff = gp_run.parsed_ff(variant, spec)
        try:
            mm, _ = H.run_processors(ff, H.build_resgraph(rg))
        except Exception as exc:  # noqa
            return [crash_violation(exc, case1, assertion="pipeline-accepts-valid-input")], False
        obs = H.mol_digest(mm.molecule)
        kpos = {a["key"]: i for i, a in enumerate(obs["atoms"])}
        nre = obs["nrexcl"]
        explicit = [[kpos[a] for a in at] for at, _, _ in obs["inter"].get("exclusions", [])]
        natoms = len(obs["atoms"])
        edges = {frozenset((kpos[a], kpos[b])) for a, b in obs["edges"]}
    got = effective(natoms, edges, nre, explicit)
    want = R.expected_exclusions(exp)
    info = f" | nrexcl={variant['nrexcl']} links={variant['links']} rg={json.dumps(rg)} program={program}"
    if got != want:
        extra = sorted(map(sorted, got - want))[:4]
        lost = sorted(map(sorted, want - got))[:4]
        viols.append(dict(assertion="effective-exclusions-exact", tags=tags,
                          message=f"excluded but must not be: {extra}; must be excluded but are not: {lost}; molecule nrexcl={nre}" + info,
                          case=case1, detail={}))
    if not exp["mixed_nrexcl"]:
        common = exp["nrexcl"]
        nblock_excl = sum(1 for k in exp["inter"] if k[0] == "exclusions")
        if nre != common:
            viols.append(dict(assertion="uniform-distance-kept", tags=tags, message=f"nrexcl {nre} expected {common}" + info, case=case1, detail={}))
        if len(explicit) != nblock_excl:
            viols.append(dict(assertion="no-exclusion-invented", tags=tags,
                              message=f"{len(explicit)} exclusion lines, blocks/links define {nblock_excl}" + info, case=case1, detail={}))
    interres = any(len({exp["atoms"][a]["node"] for a in e}) == 2 for e in exp["edges"])
    return viols, exp["mixed_nrexcl"] and interres


def run_case(case):
    variant = case["variant"]
    spec = gp_cases.make_spec(variant)
    stats = {}
    if case.get("single"):
        v, _ = run_one(variant, spec, case["rg"], stats, case, case.get("program", False))
        return dict(evals=1, keys=[], violations=v, stats=stats)
    evals, keys, viols = 0, [], []
    for rg in gp_cases.graphs_for(variant, case["n"], case["tier"], starts=(1,)):
        used = set(rg["resnames"])
        for program in ((False, True) if case["n"] <= 2 else (False,)):
            case1 = {"variant": variant, "rg": rg, "single": True, "program": program}
            v, nt = run_one(variant, spec, rg, stats, case1, program)
            evals += 1
            if len(viols) < 20:
                viols += v
            if nt:
                keys.append(json.dumps([variant["links"], variant["nrexcl"], rg, program], sort_keys=True))
    return dict(evals=evals, keys=keys, violations=viols, stats=stats,
                sample={"links": variant["links"], "nrexcl": variant["nrexcl"], "n": case["n"], "inputs": evals})
