"""C14 - mixed exclusion distances are honoured atom by atom."""
import itertools, json
from .. import ffmodel as F, gp_harness as H, gp_cases, gp_run, ref_genparams as R
from ..runner import crash_violation

PID = "C14"
LEVEL = "exploration"
RULE = ("blocks A(2 atoms) C(3, explicit exclusion) D(4-atom chain + constraint) with exclusion distances from {1,2,3}^3 (n<=3) and "
        "{0..4}^2 (A,D; n<=4) x bond-making link sets {bb},{bb,a_c},{gt},{bb,lt_sa},{bb,exl: explicit link exclusion} x all labelled connected residue graphs x all "
        "resname assignments; effective exclusion set of the built molecule (pairs within the molecule-wide nrexcl by BFS over the "
        "observed edges, plus explicit [ exclusions ]) must equal {1<=d(a,b)<=max(excl(block a), excl(block b))} U explicit block "
        "exclusions; uniform inputs keep nrexcl and gain no exclusion; n<=2 also through the written .itp; plus sequences (<=3 tokens, thorough 4) over "
        "A, D and a two-residue from_itp fragment M (4 atoms) joined by links, exclusion distances {1,2,3}^3 (thorough {0..3}^3); plus chains of 2-3 residues over A, C, D whose junction bonds are "
        "made by explicit by_atom_id links (one link, one link per bond, ordinary backbone link plus explicit ring-closing bonds). non-trivial = mixed "
        "exclusion distances and >=1 inter-residue bond")
ASSUMPTIONS = ["consecutive atoms of angles/dihedrals are also bonded in the alphabet, so polyply's edge graph equals the bond graph",
               "reference: pmc/ref_genparams.expected_exclusions"]
BUDGET = {"quick": 420, "thorough": 2400}

LINKSETS = [["bb"], ["bb", "a_c"], ["gt"], ["bb", "lt_sa"], ["bb", "exl"], ["bb", "intra"]]


def cases(tier):
    for links in LINKSETS:
        for combo in itertools.product((1, 2, 3), repeat=3):
            nre = dict(zip("ACD", combo))
            for n in (1, 2, 3):
                yield {"variant": {"links": links, "nrexcl": nre, "names": ["A", "C", "D"], "blocks": "ABCD"}, "n": n, "tier": tier}
        vals = range(0, 5)
        for combo in itertools.product(vals, repeat=2):
            nre = dict(zip("AD", combo))
            for n in (2, 3, 4) if tier == "quick" else (2, 3, 4, 5):
                if n == 5 and links != ["bb"]:
                    continue
                yield {"variant": {"links": links, "nrexcl": nre, "names": ["A", "D"], "blocks": "ABCD"}, "n": n, "tier": tier}
    yield from multi_cases(tier)
    yield from explicit_cases(tier)
    yield {"kind": "reuse", "tier": tier}


def effective(natoms, edges, nrexcl, explicit):
    dist = R.bond_distances(natoms, edges)
    out = set()
    for a in range(natoms):
        for b, d in dist[a].items():
            if a != b and 1 <= d <= nrexcl:
                out.add(frozenset((a, b)))
    for at in explicit:
        for o in at[1:]:
            if o != at[0]:
                out.add(frozenset((at[0], o)))
    return out


def run_one(variant, spec, rg, stats, case1, program):
    viols = []
    try:
        exp = R.build(spec, rg)
    except (R.Unspecified, R.Rejected):
        return viols, False
    tags = []
    if program:
        with H.tempdir() as d:
            r = H.run_gen_params(d, [("ff.ff", F.render_ff(spec))], graph=H.build_resgraph(rg))
            if r["exc"] is not None:
                return [crash_violation(r["exc"], case1, assertion="pipeline-accepts-valid-input")], False
            itp = H.read_itp_plain(r["itp_path"])
        nre = itp["nrexcl"]
        explicit = [[int(x) - 1 for x in tok] for tok, _ in itp["inter"].get("exclusions", [])]
        natoms = len(itp["atoms"])
        kpos = {a["key"]: i for i, a in enumerate(r["captured"]["atoms"])}
        edges = {frozenset((kpos[a], kpos[b])) for a, b in r["captured"]["edges"]}
    else:
        ff = gp_run.parsed_ff(variant, spec)
        try:
            mm, _ = H.run_processors(ff, H.build_resgraph(rg, key_perm=case1.get("keys")))
        except Exception as exc:  # noqa
            return [crash_violation(exc, case1, assertion="pipeline-accepts-valid-input")], False
        obs = H.mol_digest(mm.molecule)
        kpos = {a["key"]: i for i, a in enumerate(obs["atoms"])}
        nre = obs["nrexcl"]
        explicit = [[kpos[a] for a in at] for at, _, _ in obs["inter"].get("exclusions", [])]
        natoms = len(obs["atoms"])
        edges = {frozenset((kpos[a], kpos[b])) for a, b in obs["edges"]}
    got = effective(natoms, edges, nre, explicit)
    want = R.expected_exclusions(exp)
    info = f" | nrexcl={variant['nrexcl']} links={variant['links']} rg={json.dumps(rg)} program={program}"
    if got != want:
        extra = sorted(map(sorted, got - want))[:4]
        lost = sorted(map(sorted, want - got))[:4]
        viols.append(dict(assertion="effective-exclusions-exact", tags=tags,
                          message=f"excluded but must not be: {extra}; must be excluded but are not: {lost}; molecule nrexcl={nre}" + info,
                          case=case1, detail={}))
    if not exp["mixed_nrexcl"]:
        common = exp["nrexcl"]
        nblock_excl = sum(1 for k in exp["inter"] if k[0] == "exclusions")
        if nre != common:
            viols.append(dict(assertion="uniform-distance-kept", tags=tags, message=f"nrexcl {nre} expected {common}" + info, case=case1, detail={}))
        if len(explicit) != nblock_excl:
            viols.append(dict(assertion="no-exclusion-invented", tags=tags,
                              message=f"{len(explicit)} exclusion lines, blocks/links define {nblock_excl}" + info, case=case1, detail={}))
    interres = any(len({exp["atoms"][a]["node"] for a in e}) == 2 for e in exp["edges"])
    return viols, exp["mixed_nrexcl"] and interres


def run_case(case):
    if case.get("kind") in ("multi", "multi1"):
        return check_multi(case)
    if case.get("kind") in ("explicit", "explicit1"):
        return check_explicit(case)
    if case.get("kind") in ("reuse", "reuse1"):
        out = check_reuse(case)
        if case["kind"] == "reuse1":
            out["violations"] = [v for v in out["violations"] if all(v["case"][k] == case[k] for k in ("nre", "first", "second"))]
        return out
    variant = case["variant"]
    spec = gp_cases.make_spec(variant)
    stats = {}
    if case.get("single"):
        v, _ = run_one(variant, spec, case["rg"], stats, case, case.get("program", False))
        return dict(evals=1, keys=[], violations=v, stats=stats)
    evals, keys, viols = 0, [], []
    for rg in gp_cases.graphs_for(variant, case["n"], case["tier"], starts=(1,)):
        used = set(rg["resnames"])
        for program in ((False, True) if case["n"] <= 2 else (False,)):
            # node keys of the residue graph: 0..n-1, and (processor level, n <= 3) counted from 1 / from 7 with a gap
            for kset in ([None] if program or case["n"] > 3 else [None, [1 + i for i in range(rg["n"])], [7 + 2 * i for i in range(rg["n"])]]):
                case1 = {"variant": variant, "rg": rg, "single": True, "program": program, "keys": kset}
                v, nt = run_one(variant, spec, rg, stats, case1, program)
                evals += 1
                if len(viols) < 20:
                    for x in v:
                        if kset:
                            x["tags"] = list(x.get("tags", [])) + ["node-keys-not-from-0"]
                    viols += v
                if nt:
                    keys.append(json.dumps([variant["links"], variant["nrexcl"], rg, program, kset], sort_keys=True))
    return dict(evals=evals, keys=keys, violations=viols, stats=stats,
                sample={"links": variant["links"], "nrexcl": variant["nrexcl"], "n": case["n"], "inputs": evals})


# ------------------------------------------------------------------ multi-residue (from_itp) fragments among ordinary residues
M_ITP = """[ moleculetype ]
M {nM}
[ atoms ]
1 X1 1 MA x1 1 0.1 10.0
2 X2 1 MA x2 2 0.2 11.0
3 Y1 2 MB y1 3 -0.3 12.0
4 Y2 2 MB y2 3 0.0 12.0
[ bonds ]
1 2 1 0.21 2100
2 3 1 0.22 2200
3 4 1 0.23 2300
"""
M_ATOMS = [("MA", "x1"), ("MA", "x2"), ("MB", "y1"), ("MB", "y2")]
M_BONDS = [(0, 1), (1, 2), (2, 3)]
M_LINKS = """[ link ]
[ atoms ]
y1 {"resname": "MB"}
+BB {"resname": "A|D"}
[ bonds ]
y1 +BB 1 0.41 410
[ link ]
[ atoms ]
BB {"resname": "A|D"}
+x1 {"resname": "MA"}
[ bonds ]
BB +x1 1 0.42 420
[ link ]
[ atoms ]
y1 {"resname": "MB"}
+x1 {"resname": "MA"}
[ bonds ]
y1 +x1 1 0.43 430
"""


def multi_cases(tier):
    vals = (1, 2, 3) if tier == "quick" else (0, 1, 2, 3)
    for nM, nA, nD in itertools.product(vals, repeat=3):
        for k in (1, 2, 3) if tier == "quick" else (1, 2, 3, 4):
            seqs = [list(q) for q in itertools.product("ADM", repeat=k) if "M" in q]
            yield dict(kind="multi", nre=dict(M=nM, A=nA, D=nD), seqs=seqs, tier=tier)


def check_multi(case):
    nre = case["nre"]
    viols, evals, keys = [], 0, []
    spec = gp_cases.make_spec({"links": ["bb"], "nrexcl": {"A": nre["A"], "D": nre["D"]}, "names": ["A", "D"], "blocks": "ABCD"})
    ff_txt = F.render_ff(spec)
    for seq in case["seqs"]:
        # expected atom list, bonds, per-atom exclusion distance
        block_excl = []          # exclusion lines of the blocks: the first atom is excluded from the others
        atoms, bonds, resnames, from_itp, anchors = [], [], [], [], []     # anchors: (first backbone-ish atom, last linking atom) per token
        for tok in seq:
            off = len(atoms)
            if tok == "M":
                atoms += [nre["M"]] * 4
                bonds += [(off + a, off + b) for a, b in M_BONDS]
                resnames += ["MA", "MB"]
                from_itp += [True, True]
                anchors.append((off + 0, off + 2))
            else:
                blk = F.BLOCKS[tok]
                names = [a[0] for a in blk["atoms"]]
                atoms += [nre[tok]] * len(names)
                for sec in ("bonds", "constraints"):
                    for at, params, meta in blk["inter"].get(sec, []):
                        bonds.append((off + names.index(at[0]), off + names.index(at[1])))
                for at, params, meta in blk["inter"].get("exclusions", []):
                    block_excl.append([off + names.index(a) for a in at])
                resnames.append(tok)
                from_itp.append(False)
                anchors.append((off, off))
        for (f0, l0), (f1, l1) in zip(anchors, anchors[1:]):
            bonds.append((l0, f1))
        n = len(resnames)
        rg = dict(n=n, edges=[[i, i + 1] for i in range(n - 1)], resids=[1 + i for i in range(n)], resnames=resnames,
                  node_attrs={str(i): {"from_itp": "M"} for i in range(n) if from_itp[i]})
        evals += 1
        case1 = dict(kind="multi1", nre=nre, seqs=[seq])
        try:
            ff = H.parse_ff([("itp", M_ITP.replace("{nM}", str(nre["M"]))), ("ff", ff_txt), ("ff", M_LINKS)])
            mm, _ = H.run_processors(ff, H.build_resgraph(rg))
        except Exception as exc:  # noqa
            viols.append(crash_violation(exc, case1, assertion="pipeline-accepts-valid-input", tags=["multi-residue-block"]))
            continue
        obs = H.mol_digest(mm.molecule)
        kpos = {a["key"]: i for i, a in enumerate(obs["atoms"])}
        explicit = [[kpos[a] for a in at] for at, _, _ in obs["inter"].get("exclusions", [])]
        edges = {frozenset((kpos[a], kpos[b])) for a, b in obs["edges"]}
        info = f" | sequence {seq} nrexcl {nre}"
        if edges != {frozenset(b) for b in bonds} or len(obs["atoms"]) != len(atoms):
            viols.append(dict(assertion="harness-multi-structure", tags=["harness"], message=f"edges {sorted(map(sorted, edges))} expected {sorted(bonds)}" + info,
                              case=case1, detail={}))
            continue
        got = effective(len(atoms), edges, obs["nrexcl"], explicit)
        dist = R.bond_distances(len(atoms), [list(b) for b in bonds])
        want = {frozenset((a, b)) for a in range(len(atoms)) for b, d in dist[a].items() if a != b and 1 <= d <= max(atoms[a], atoms[b])}
        want |= {frozenset((line[0], o)) for line in block_excl for o in line[1:]}
        if got != want and len(viols) < 20:
            extra = sorted(map(sorted, got - want))[:4]
            lost = sorted(map(sorted, want - got))[:4]
            viols.append(dict(assertion="effective-exclusions-exact", tags=["multi-residue-block"],
                              message=f"excluded but must not be: {extra}; must be excluded but are not: {lost}; molecule nrexcl={obs['nrexcl']}" + info,
                              case=case1, detail={}))
        used = {nre["M"]} | {nre[t] for t in seq if t != "M"}
        if len(used) == 1:
            if obs["nrexcl"] != nre["M"] and len(viols) < 20:
                viols.append(dict(assertion="uniform-distance-kept", tags=["multi-residue-block"], message=f"nrexcl {obs['nrexcl']}" + info, case=case1, detail={}))
            if len(explicit) != len(block_excl) and len(viols) < 20:
                viols.append(dict(assertion="no-exclusion-invented", tags=["multi-residue-block"], message=f"{len(explicit)} exclusion lines, the blocks define {len(block_excl)}" + info, case=case1, detail={}))
        elif len(seq) > 1:
            keys.append(json.dumps([seq, nre], sort_keys=True))
    return dict(evals=evals, keys=keys, violations=viols, stats={"inputs_multi": evals}, sample=dict(nre=nre, sequences=len(case["seqs"])))


# ------------------------------------------------------------------ several molecules from one force-field object
def check_reuse(case):
    """two molecules built one after the other from the SAME loaded force field (fresh processors each time, as a script using
    the library does): the second molecule gets the exclusions its own blocks prescribe, whatever was built before"""
    viols, evals, keys = [], 0, []
    for nre in ({"A": 3, "D": 1}, {"A": 1, "D": 3}, {"A": 2, "D": 0}, {"A": 2, "D": 2}):
        variant = {"links": ["bb"], "nrexcl": nre, "names": ["A", "D"], "blocks": "ABCD"}
        spec = gp_cases.make_spec(variant)
        seqs = [["A", "D"], ["D", "A", "A"], ["A", "A"], ["D", "D"], ["A", "D", "A"]]
        for first, second in itertools.permutations(seqs, 2):
            ff = H.parse_ff([("ff", F.render_ff(spec))])
            for which, names in (("first", first), ("second", second)):
                n = len(names)
                rg = dict(n=n, edges=[[i, i + 1] for i in range(n - 1)], resids=[1 + i for i in range(n)], resnames=names)
                evals += 1
                case1 = dict(kind="reuse1", nre=nre, first=first, second=second)
                try:
                    exp = R.build(spec, rg)
                    mm, _ = H.run_processors(ff, H.build_resgraph(rg))
                except Exception as exc:  # noqa
                    viols.append(crash_violation(exc, case1, assertion="pipeline-accepts-valid-input", tags=["force-field-reused"]))
                    break
                obs = H.mol_digest(mm.molecule)
                kpos = {a["key"]: i for i, a in enumerate(obs["atoms"])}
                explicit = [[kpos[a] for a in at] for at, _, _ in obs["inter"].get("exclusions", [])]
                edges = {frozenset((kpos[a], kpos[b])) for a, b in obs["edges"]}
                got = effective(len(obs["atoms"]), edges, obs["nrexcl"], explicit)
                want = R.expected_exclusions(exp)
                if got != want and len(viols) < 20:
                    viols.append(dict(assertion="effective-exclusions-exact", tags=["force-field-reused", which],
                                      message=f"{which} molecule {names} (built {'after ' + str(first) if which == 'second' else 'first'} from one force-field object, nrexcl {nre}): "
                                              f"excluded but must not be {sorted(map(sorted, got - want))[:4]}; must be excluded but are not {sorted(map(sorted, want - got))[:4]}; molecule nrexcl={obs['nrexcl']}",
                                      case=case1, detail={}))
            keys.append(json.dumps([nre, first, second], sort_keys=True))
    return dict(evals=evals, keys=keys, violations=viols, stats={"inputs_reuse": evals}, sample=dict(kind="reuse", runs=evals))


# ------------------------------------------------------------------ inter-residue bonds made by explicit (by_atom_id) links
def explicit_cases(tier):
    for combo in itertools.product((1, 2, 3), repeat=3):
        yield dict(kind="explicit", nre=dict(zip("ACD", combo)), tier=tier)


def check_explicit(case):
    nre = case["nre"]
    viols, evals, keys = [], 0, []
    spec = gp_cases.make_spec({"links": [], "nrexcl": nre, "names": ["A", "C", "D"], "blocks": "ABCD"})
    ff_txt = F.render_ff(spec)
    seqs = case.get("seqs") or [list(q) for k in (2, 3) for q in itertools.product("ACD", repeat=k)]
    for seq in seqs:
        for mode in ("one-link", "link-per-bond", "mixed"):
            atoms, bonds, explicit_block, first = [], [], [], []
            for tok in seq:
                off = len(atoms)
                blk = F.BLOCKS[tok]
                names = [a[0] for a in blk["atoms"]]
                atoms += [nre[tok]] * len(names)
                for sec in ("bonds", "constraints"):
                    for at, params, meta in blk["inter"].get(sec, []):
                        bonds.append((off + names.index(at[0]), off + names.index(at[1])))
                for at, params, meta in blk["inter"].get("exclusions", []):
                    explicit_block += [(off + names.index(at[0]), off + names.index(o)) for o in at[1:]]
                first.append(off)
            inter_bonds = list(zip(first, first[1:]))
            bonds += inter_bonds
            by_number = inter_bonds
            if mode == "mixed":
                # junctions by the ordinary backbone link; explicit links add a second bond between the last atoms of
                # consecutive residues (rings across the junction)
                last = [f - 1 for f in first[1:]] + [len(atoms) - 1]
                by_number = list(zip(last, last[1:]))
                bonds += by_number
            lines = [f"{a + 1} {b + 1} 1 0.4{i} 50{i}" for i, (a, b) in enumerate(by_number)]
            if mode == "link-per-bond":
                link_txt = "".join("[ link ]\n[ molmeta ]\nby_atom_id true\n[ bonds ]\n" + ln + "\n" for ln in lines)
            else:
                link_txt = "[ link ]\n[ molmeta ]\nby_atom_id true\n[ bonds ]\n" + "\n".join(lines) + "\n"
            if mode == "mixed":
                link_txt = F.render_link_ff(F.LINKS["bb"]) + link_txt
            n = len(seq)
            rg = dict(n=n, edges=[[i, i + 1] for i in range(n - 1)], resids=[1 + i for i in range(n)], resnames=list(seq))
            evals += 1
            case1 = dict(kind="explicit1", nre=nre, seqs=[seq], tier=case["tier"])
            try:
                ff = H.parse_ff([("ff", ff_txt), ("ff", link_txt)])
                mm, _ = H.run_processors(ff, H.build_resgraph(rg))
            except Exception as exc:  # noqa
                viols.append(crash_violation(exc, case1, assertion="pipeline-accepts-valid-input", tags=["explicit-link", mode]))
                continue
            obs = H.mol_digest(mm.molecule)
            kpos = {a["key"]: i for i, a in enumerate(obs["atoms"])}
            explicit = [[kpos[a] for a in at] for at, _, _ in obs["inter"].get("exclusions", [])]
            edges = {frozenset((kpos[a], kpos[b])) for a, b in obs["edges"]}
            info = f" | sequence {seq} nrexcl {nre} junctions {mode}"
            if edges != {frozenset(b) for b in bonds} or len(obs["atoms"]) != len(atoms):
                viols.append(dict(assertion="explicit-link-makes-its-bonds", tags=["explicit-link", mode],
                                  message=f"edges {sorted(map(sorted, edges))} expected {sorted(bonds)}" + info, case=case1, detail={}))
                continue
            got = effective(len(atoms), edges, obs["nrexcl"], explicit)
            dist = R.bond_distances(len(atoms), [list(b) for b in bonds])
            want = {frozenset((a, b)) for a in range(len(atoms)) for b, d in dist[a].items() if a != b and 1 <= d <= max(atoms[a], atoms[b])}
            want |= {frozenset(p) for p in explicit_block}
            if got != want and len(viols) < 20:
                extra = sorted(map(sorted, got - want))[:4]
                lost = sorted(map(sorted, want - got))[:4]
                viols.append(dict(assertion="effective-exclusions-exact", tags=["explicit-link", mode],
                                  message=f"excluded but must not be: {extra}; must be excluded but are not: {lost}; molecule nrexcl={obs['nrexcl']}" + info,
                                  case=case1, detail={}))
            if len({nre[t] for t in seq}) > 1:
                keys.append(json.dumps([seq, nre, mode], sort_keys=True))
    return dict(evals=evals, keys=keys, violations=viols, stats={"inputs_explicit": evals}, sample=dict(nre=nre, sequences=len(seqs)))
