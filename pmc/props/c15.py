"""C15 - one centred template and size per distinct residue; user values win (E3 + layout seam)."""
import itertools, json, math
import numpy as np
import networkx as nx
from .. import gp_harness as H, seams
from ..enum_graphs import connected_graphs
from ..explore_choice import Chooser
from ..runner import crash_violation

PID = "C15"
LEVEL = "exploration"
RULE = ("(a) virtual sites: every construction kind (2, 3, 3fd, 3fad, 3out, 4fdn, n with equal weights) x parameter grid x 3 "
        "defining-atom configurations, compared with the GROMACS manual formula and re-evaluated under the 24 proper cube rotations "
        "x 3 translations (equivariance); (b) residue definitions: every connected atom graph with <=4 atoms, names A-D in "
        "canonical and in one permuted order, bond lengths {0.25, 0.35}, angle targets {90, 120}; all ordered pairs of definitions "
        "as two bonded residues of one molecule under equal and under different residue names, through the real "
        "Topology reader + GenerateTemplates, for 3 initial layouts; residues with each virtual-site kind; (c) build files with "
        "[ template ] / [ volumes ] for a subset of the residues. Oracle: isomorphic name-labelled graphs share template key and "
        "size, different name multisets do not; each template has exactly the residue's atom names and zero centre of geometry; "
        "virtual sites sit on the manual formula; whenever optimize_geometry reports success every bond / constraint / angle / "
        "improper recomputed independently is within tolerance; user templates and sizes are used verbatim; every size > 0. "
        "distinct_nontrivial = distinct (pair of definitions, naming, layout) with >=2 atoms")
ASSUMPTIONS = ["virtual_sitesn with unequal weights (COM/COW) are a documented approximation in the code and not judged",
               "initial layouts: 3 fixed pseudo-random layouts fed through kamada_kawai_layout's pos argument"]
BUDGET = {"quick": 480, "thorough": 2400}


# ------------------------------------------------------------------ (a) virtual sites
def rotations24():
    mats = []
    for perm in itertools.permutations(range(3)):
        for signs in itertools.product([1, -1], repeat=3):
            M = np.zeros((3, 3))
            for i, (p, s) in enumerate(zip(perm, signs)):
                M[i, p] = s
            if abs(np.linalg.det(M) - 1) < 1e-9:
                mats.append(M)
    return mats


def manual_vs(kind, params, r):
    """GROMACS manual formulas; r = list of defining positions"""
    if kind == "2":
        a, = params
        return (1 - a) * r[0] + a * r[1]
    if kind == "3":
        a, b = params
        return (1 - a - b) * r[0] + a * r[1] + b * r[2]
    rij, rik = r[1] - r[0], r[2] - r[0]
    rjk = r[2] - r[1]
    if kind == "3fd":
        a, b = params
        v = rij + a * rjk
        return r[0] + b * v / np.linalg.norm(v)
    if kind == "3fad":
        theta, d = params
        rperp = rjk - rij * np.dot(rij, rjk) / np.dot(rij, rij)
        return r[0] + d * math.cos(math.radians(theta)) * rij / np.linalg.norm(rij) + d * math.sin(math.radians(theta)) * rperp / np.linalg.norm(rperp)
    if kind == "3out":
        a, b, c = params
        return r[0] + a * rij + b * rik + c * np.cross(rij, rik)
    if kind == "4fdn":
        a, b, c = params
        ril = r[3] - r[0]
        rja, rjb = a * rik - rij, b * ril - rij
        rm = np.cross(rja, rjb)
        return r[0] + c * rm / np.linalg.norm(rm)
    if kind == "n":
        return np.mean(r, axis=0)
    raise ValueError(kind)


VS_KINDS = {"2": ("virtual_sites2", "1", 2, [(0.3,), (0.5,), (1.2,)]),
            "3": ("virtual_sites3", "1", 3, [(0.2, 0.3), (0.5, 0.5), (-0.2, 0.7)]),
            "3fd": ("virtual_sites3", "2", 3, [(0.4, 0.1), (0.7, 0.25)]),
            "3fad": ("virtual_sites3", "3", 3, [(120.0, 0.1), (60.0, 0.2), (-120.0, 0.2), (240.0, 0.15), (-60.0, 0.1)]),     # angles in the lower half plane too
            "3out": ("virtual_sites3", "4", 3, [(0.2, 0.3, 1.5), (-0.4, 0.1, -2.0)]),
            "4fdn": ("virtual_sites4", "2", 4, [(0.5, 0.6, 0.1), (1.2, 0.8, -0.15)]),
            "n": ("virtual_sitesn", "1", 3, [()])}
CONFIGS = [[np.array(p) for p in ((0.0, 0.0, 0.0), (0.3, 0.0, 0.1), (0.1, 0.35, 0.0), (-0.1, 0.1, 0.3))],
           [np.array(p) for p in ((1.0, 2.0, 3.0), (1.2, 2.1, 3.0), (0.9, 2.4, 3.2), (1.1, 1.8, 3.4))],
           [np.array(p) for p in ((0.5, 0.5, 0.5), (0.5, 0.9, 0.5), (0.9, 0.5, 0.6), (0.4, 0.4, 1.0))]]


def check_vs(case):
    from polyply.src.virtual_site_builder import construct_vs
    from vermouth.molecule import Interaction
    viols, evals, keys = [], 0, []
    rots = rotations24()
    shifts = [np.zeros(3), np.array([1.5, -0.7, 0.3]), np.array([-2.0, 0.25, 4.0])]
    for kind, (sec, func, ndef, grid) in VS_KINDS.items():
        for params in grid:
            for ci, conf in enumerate(CONFIGS):
                base = conf[:ndef]
                names = ["v"] + [f"d{i}" for i in range(ndef)]
                inter = Interaction(atoms=names, parameters=[func] + [str(p) for p in params], meta={})
                for R, t in itertools.product(rots, shifts):
                    pts = [R @ p + t for p in base]
                    posd = {n: p for n, p in zip(names[1:], pts)}
                    posd["v"] = np.zeros(3)
                    evals += 1
                    case1 = dict(kind="vs1", vs=kind, params=list(params), conf=ci, R=R.tolist(), t=t.tolist())
                    try:
                        got = np.asarray(construct_vs(sec, inter, posd), dtype=float)
                    except Exception as exc:  # noqa
                        viols.append(crash_violation(exc, case1, assertion="virtual-site-constructed"))
                        break
                    want = manual_vs(kind, params, pts)
                    if not np.abs(got - want).max() <= 1e-9 and len(viols) < 20:
                        viols.append(dict(assertion="virtual-site-on-manual-formula", tags=[f"vs:{kind}"],
                                          message=f"{kind} {params} config {ci}: {got} expected {want}", case=case1, detail={}))
                    ref0 = R @ manual_vs(kind, params, base) + t
                    if not np.abs(got - ref0).max() <= 1e-9 and len(viols) < 20:
                        viols.append(dict(assertion="virtual-site-equivariant", tags=[f"vs:{kind}"],
                                          message=f"{kind} {params} config {ci}: construction does not follow the rigid motion", case=case1, detail={}))
                keys.append(f"vs:{kind}:{params}:{ci}")
    return viols, evals, keys


# ------------------------------------------------------------------ (b) residue definitions
def residue_defs():
    """[(id, names, bonds[(i,j,len)], angles[(i,j,k,val)])]"""
    out = []
    for n in (1, 2, 3, 4):
        for gi, edges in enumerate(connected_graphs(n)):
            for naming in ("canon", "perm"):
                names = list("ABCD"[:n])
                if naming == "perm":
                    if n == 1:
                        continue
                    names = names[1:] + names[:1]
                for bl in (0.25, 0.35):
                    bonds = [(a, b, bl) for a, b in edges]
                    adj = {i: set() for i in range(n)}
                    for a, b in edges:
                        adj[a].add(b)
                        adj[b].add(a)
                    angles = []
                    cyc = len(edges) >= n and n >= 3
                    if not cyc:
                        for j in range(n):
                            for i, k in itertools.combinations(sorted(adj[j]), 2):
                                angles.append((i, j, k, 120.0 if bl == 0.25 else 90.0))
                    out.append(dict(id=f"g{n}.{gi}.{naming}.{bl}", names=names, bonds=bonds, angles=angles))
    return out


def top_for(defs, resnames, extra_inter=None, reverse_lines=False):
    """one molecule: residues in a chain, residue k = defs[k], bonded first atom to first atom; reverse_lines: the lines of
    every directive in reverse order (bonds between residues first, then the last residue's, ... - the order is free)"""
    lines = ["[ defaults ]", "1 2 no 1.0 1.0", "[ atomtypes ]", "P 72.0 0.0 A 0.30 4.0", "[ moleculetype ]", "M 1", "[ atoms ]"]
    first, off = [], 0
    bonds, angles = [], []
    for r, (d, rn) in enumerate(zip(defs, resnames)):
        first.append(off + 1)
        for i, nm in enumerate(d["names"]):
            lines.append(f"{off + i + 1} P {r + 1} {rn} {nm} {off + i + 1} 0.0 72.0")
        bonds += [(off + a + 1, off + b + 1, l) for a, b, l in d["bonds"]]
        angles += [(off + a + 1, off + b + 1, off + c + 1, v) for a, b, c, v in d["angles"]]
        off += len(d["names"])
    for a, b in zip(first[:-1], first[1:]):
        bonds.append((a, b, 0.4))
    if reverse_lines:
        bonds, angles = bonds[::-1], angles[::-1]
    if bonds:
        lines.append("[ bonds ]")
        lines += [f"{a} {b} 1 {l} 1000" for a, b, l in bonds]
    if angles:
        lines.append("[ angles ]")
        lines += [f"{a} {b} {c} 1 {v} 100" for a, b, c, v in angles]
    for sec, ls in (extra_inter or {}).items():
        lines.append(f"[ {sec} ]")
        lines += ls
    lines += ["[ system ]", "v", "[ molecules ]", "M 1"]
    return "\n".join(lines) + "\n"


def gen_templates(toptext, bldtext, layout, skip_filter=False):
    """Topology reader + build file + GenerateTemplates on files; returns (topology, optimisation records)"""
    from polyply.src.topology import Topology
    from polyply.src.load_library import load_build_files
    import polyply.src.generate_templates as gt
    records = []
    real_opt = gt.optimize_geometry

    def spy(block, coords, inter_types, *a, **k):
        ok, out = real_opt(block, coords, inter_types, *a, **k)
        records.append(dict(block=block, coords={kk: np.array(v) for kk, v in out.items()}, inter_types=list(inter_types), ok=bool(ok)))
        return ok, out
    with H.tempdir() as d:
        (d / "s.top").write_text(toptext)
        top = Topology.from_gmx_topfile(d / "s.top", "v")
        top.preprocess()
        files = []
        for i, text in enumerate(bldtext if isinstance(bldtext, list) else ([bldtext] if bldtext else [])):
            if text:
                (d / f"b{i}.bld").write_text(text)      # several -b files are read one after the other
                files.append(d / f"b{i}.bld")
        load_build_files(top, None, files)
        gt.optimize_geometry = spy
        try:
            with layout_seam(layout):
                gt.GenerateTemplates(topology=top, max_opt=10, skip_filter=skip_filter).run_system(top)
        finally:
            gt.optimize_geometry = real_opt
    return top, records


import contextlib, types


@contextlib.contextmanager
def layout_seam(layout):
    import polyply.src.generate_templates as gt
    real_nx = gt.nx
    real_kk = nx.kamada_kawai_layout

    calls = [0]

    def kk(G, dim=2, **k):
        # every call its own fixed stream (polyply redraws the layout until the impropers have the right sign)
        nodes = list(G.nodes)
        if len(nodes) == 1:
            return {nodes[0]: np.zeros(dim)}
        rs = np.random.RandomState(1000 + layout + 7 * calls[0])
        calls[0] += 1
        return real_kk(G, pos={n: rs.rand(dim) for n in nodes}, dim=dim, **k)
    shim = types.SimpleNamespace(**{k: getattr(nx, k) for k in dir(nx) if not k.startswith("__")})
    shim.kamada_kawai_layout = kk
    gt.nx = shim
    st_r, st_n = __import__("random").getstate(), np.random.get_state()[1].tobytes()
    try:
        yield
    finally:
        gt.nx = real_nx
        if __import__("random").getstate() != st_r or np.random.get_state()[1].tobytes() != st_n:
            raise RuntimeError("template generation drew from a global random source outside the seam")


def labelled(d):
    g = nx.Graph()
    for i, nm in enumerate(d["names"]):
        g.add_node(i, name=nm)
    g.add_edges_from((a, b) for a, b, _ in d["bonds"])
    return g


def iso(d1, d2):
    return nx.is_isomorphic(labelled(d1), labelled(d2), node_match=lambda a, b: a["name"] == b["name"])


def angle_deg(a, b, c):
    v1, v2 = a - b, c - b
    cosang = np.dot(v1, v2) / (np.linalg.norm(v1) * np.linalg.norm(v2))
    return math.degrees(math.acos(max(-1.0, min(1.0, cosang))))


def dihedral_deg(a, b, c, d):
    """signed dihedral, IUPAC / GROMACS convention (projection formula)"""
    b0, b1, b2 = -1.0 * (b - a), c - b, d - c
    b1 = b1 / np.linalg.norm(b1)
    v = b0 - np.dot(b0, b1) * b1
    w = b2 - np.dot(b2, b1) * b1
    return math.degrees(math.atan2(np.dot(np.cross(b1, v), w), np.dot(v, w)))


def judge_templates(top, records, defs, resnames, case1, user=None):
    viols = []

    def bad(assertion, msg, tags=()):
        if len(viols) < 12:
            viols.append(dict(assertion=assertion, tags=list(tags), message=msg, case=case1, detail={}))
    mm = top.molecules[0]
    keys = []
    for node, d in zip(mm.nodes, defs):
        nd = mm.nodes[node]
        key = nd.get("template")
        keys.append(key)
        if key is None or key not in mm.templates:
            bad("every-residue-has-a-template", f"residue {node} ({nd['resname']}) template key {key}")
            continue
        tmpl = mm.templates[key]
        if sorted(tmpl) != sorted(d["names"]):
            bad("template-holds-the-residue-atom-names", f"residue {node}: template atoms {sorted(tmpl)} residue atoms {sorted(d['names'])}")
            continue
        cog = np.mean([np.asarray(v, dtype=float) for v in tmpl.values()], axis=0)
        if not np.abs(cog).max() <= 1e-9:
            bad("template-centre-of-geometry-zero", f"residue {node}: centre of geometry {cog}")
        vol = top.volumes.get(key)
        if vol is None or not vol > 0:
            bad("size-positive", f"residue {node}: size {vol}")
    for (i, di), (j, dj) in itertools.combinations(list(enumerate(defs)), 2):
        same = iso(di, dj)
        if same and keys[i] != keys[j]:
            bad("isomorphic-residues-share-template", f"residues {i},{j} are isomorphic but have keys {keys[i]} {keys[j]}")
        if same and top.volumes.get(keys[i]) != top.volumes.get(keys[j]):
            bad("isomorphic-residues-share-template", f"residues {i},{j} sizes differ")
        if sorted(di["names"]) != sorted(dj["names"]) and keys[i] == keys[j]:
            bad("different-atom-names-different-template", f"residues {i},{j} have different atom names but share key {keys[i]}")
        if not same and keys[i] == keys[j] and keys[i] is not None:
            bad("different-bond-graphs-different-template", f"residues {i},{j} have the same atom names but differently bonded atoms and share template {keys[i]}")
    # optimisation verdicts.  GenerateTemplates optimises in two stages per attempt; the verdict of the second one decides
    # whether the template counts as optimised, and then ALL bond / constraint / angle / improper targets of the residue
    # must hold, whatever list of interaction types polyply handed to its optimiser.  A positive first-stage verdict is
    # judged on the interaction types it was asked to look at.
    if len(records) % 2:
        bad("harness-optimisation-stages", f"{len(records)} optimiser calls, expected pairs", ["harness"])
    for ri, rec in enumerate(records):
        if not rec["ok"]:
            continue
        blk, co = rec["block"], rec["coords"]
        secs = ["bonds", "constraints", "angles", "dihedrals"] if ri % 2 else rec["inter_types"]
        for sec in secs:
            for it in blk.interactions.get(sec, []):
                pts = [co[a] for a in it.atoms]
                if sec in ("bonds", "constraints"):
                    dev = abs(np.linalg.norm(pts[0] - pts[1]) - float(it.parameters[1]))
                    if not dev <= 0.05 + 1e-9:
                        bad("optimised-template-meets-targets", f"{sec} {it.atoms}: deviation {dev:.4f} nm > 0.05 although reported optimised")
                elif sec == "angles":
                    dev = abs(angle_deg(*pts) - float(it.parameters[1]))
                    if not dev <= 5 + 1e-6:
                        bad("optimised-template-meets-targets", f"angle {it.atoms}: deviation {dev:.2f} deg > 5 although reported optimised")
                elif sec == "dihedrals" and it.parameters[0] == "2":
                    dev = abs(dihedral_deg(*pts) - float(it.parameters[1]))
                    dev = min(dev, 360 - dev)
                    if not dev <= 5 + 1e-6:
                        bad("optimised-template-meets-targets", f"improper {it.atoms}: deviation {dev:.2f} deg > 5 although reported optimised")
        if ri % 2:
            # ... and the targets are those of the residue as the input defines it (not only what polyply copied into the block
            # it optimised): the template must meet all bonds / angles of one of the input residues with these atom names
            names = sorted(blk.nodes[a]["atomname"] for a in blk.nodes)
            byname = {blk.nodes[a]["atomname"]: co[a] for a in blk.nodes if a in co}
            cands = [d for d in defs if sorted(d["names"]) == names and len(set(d["names"])) == len(d["names"])]
            worst = []
            for d in cands:
                dev = 0.0
                for a, b, l in d["bonds"]:
                    dev = max(dev, abs(np.linalg.norm(byname[d["names"][a]] - byname[d["names"][b]]) - l) / 0.05)
                for a, b, c, v in d["angles"]:
                    dev = max(dev, abs(angle_deg(byname[d["names"][a]], byname[d["names"][b]], byname[d["names"][c]]) - v) / 5.0)
                worst.append(dev)
            if cands and len(byname) == len(names) and not min(worst) <= 1.0 + 1e-6:
                bad("optimised-template-meets-targets", f"template with atoms {names} is reported optimised but misses the bond / angle targets of every input residue "
                    f"with these atoms (smallest worst deviation {min(worst):.2f} x tolerance)", ["targets-from-the-input"])
    return viols, keys


def check_pairs(case):
    viols, evals, keys = [], 0, []
    defs = residue_defs()
    part, nparts = case["part"], case["nparts"]
    pairs = [(a, b) for a in range(len(defs)) for b in range(len(defs))]
    for pi, (a, b) in enumerate(pairs):
        if pi % nparts != part:
            continue
        da, db = defs[a], defs[b]
        if case["tier"] == "quick" and (da["id"].endswith("0.35") != db["id"].endswith("0.35")):
            continue
        for same_name in (True, False):
            resnames = ["R", "R"] if same_name else ["R", "Q"]
            for layout in ((0, "revlines") if case["tier"] == "quick" and (a + b) % 3 else (0, 1, 2, "skip", "revlines")):
                evals += 1
                case1 = dict(kind="pair1", a=da["id"], b=db["id"], same_name=same_name, layout=layout)
                try:
                    # 'skip': the -skip_filter route (templates looked up per residue, not per group), layout 0
                    # 'revlines': layout 0, the lines of [ bonds ] / [ angles ] written in reverse order
                    top, recs = gen_templates(top_for([da, db], resnames, reverse_lines=layout == "revlines"), None, 0 if layout in ("skip", "revlines") else layout,
                                              skip_filter=layout == "skip")
                except Exception as exc:  # noqa
                    viols.append(crash_violation(exc, case1, assertion="templates-generated"))
                    continue
                v, _ = judge_templates(top, recs, [da, db], resnames, case1)
                if len(viols) < 20:
                    viols += v
                if len(da["names"]) + len(db["names"]) > 2:
                    keys.append(f"{da['id']}|{db['id']}|{same_name}|{layout}")
    return viols, evals, keys


def top_two_molecules(da, db):
    lines = ["[ defaults ]", "1 2 no 1.0 1.0", "[ atomtypes ]", "P 72.0 0.0 A 0.30 4.0"]
    for mname, d in (("MA", da), ("MB", db)):
        lines += ["[ moleculetype ]", f"{mname} 1", "[ atoms ]"]
        lines += [f"{i + 1} P 1 R {nm} {i + 1} 0.0 72.0" for i, nm in enumerate(d["names"])]
        if d["bonds"]:
            lines.append("[ bonds ]")
            lines += [f"{a + 1} {b + 1} 1 {l} 1000" for a, b, l in d["bonds"]]
        if d["angles"]:
            lines.append("[ angles ]")
            lines += [f"{a + 1} {b + 1} {c + 1} 1 {v} 100" for a, b, c, v in d["angles"]]
    lines += ["[ system ]", "v", "[ molecules ]", "MA 1", "MB 2", "MA 1"]
    return "\n".join(lines) + "\n"


def ref_size(tmpl, sigma):
    pts = np.array([np.asarray(v, dtype=float) for v in tmpl.values()])
    cog = pts.mean(axis=0)
    vecs, radii = [], []
    for p_ in pts:
        d_ = p_ - cog
        if np.linalg.norm(d_) > 1e-18:
            vecs.append(d_ + d_ / np.linalg.norm(d_) * sigma)
        else:
            radii.append(sigma)
            vecs.append(np.zeros(3))
    vecs = np.array(vecs)
    if not np.any(vecs):
        return max(radii)
    n = len(vecs)
    return float(np.sqrt(sum(np.dot(a - b, a - b) for a in vecs for b in vecs) / (2.0 * n * n)))


def check_two_molecules(case):
    """the same residue name with different content in two molecule types (and repeated instances)"""
    viols, evals, keys = [], 0, []
    defs = residue_defs()
    part, nparts = case["part"], case["nparts"]
    pairs = [(a, b) for a in range(len(defs)) for b in range(len(defs)) if a < b]
    for pi, (a, b) in enumerate(pairs):
        if pi % nparts != part or (case["tier"] == "quick" and pi % 3):
            continue
        da, db = defs[a], defs[b]
        evals += 1
        case1 = dict(kind="twomol1", a=da["id"], b=db["id"])
        try:
            top, recs = gen_templates(top_two_molecules(da, db), None, 0)
        except Exception as exc:  # noqa
            viols.append(crash_violation(exc, case1, assertion="templates-generated"))
            continue
        keys_by_def = {}
        for mm in top.molecules:
            d = da if mm.mol_name == "MA" else db
            for node in mm.nodes:
                key = mm.nodes[node].get("template")
                keys_by_def.setdefault(d["id"], set()).add(key)
                tmpl = mm.templates.get(key)
                if tmpl is None or sorted(tmpl) != sorted(d["names"]):
                    viols.append(dict(assertion="template-holds-the-residue-atom-names", tags=["same-resname-different-content"],
                                      message=f"molecule {mm.mol_name}: template atoms {None if tmpl is None else sorted(tmpl)} residue atoms {sorted(d['names'])}", case=case1, detail={}))
                    continue
                cog = np.mean([np.asarray(v, dtype=float) for v in tmpl.values()], axis=0)
                if not np.abs(cog).max() <= 1e-9:
                    viols.append(dict(assertion="template-centre-of-geometry-zero", tags=[], message=f"{mm.mol_name}: {cog}", case=case1, detail={}))
                if not top.volumes.get(key, 0) > 0:
                    viols.append(dict(assertion="size-positive", tags=[], message=f"{mm.mol_name}: size {top.volumes.get(key)}", case=case1, detail={}))
                # the size belongs to this residue's own template: radius of gyration of the template positions pushed
                # outwards by the particle radius (sigma 0.30 for every atom type here); recomputed independently
                want_size = ref_size(tmpl, 0.30)
                if not abs(top.volumes.get(key, 0) - want_size) <= 1e-9 and len(viols) < 20:
                    viols.append(dict(assertion="size-computed-from-own-template", tags=["same-resname-different-content"],
                                      message=f"{mm.mol_name} residue {sorted(d['names'])}: size {top.volumes.get(key)} but its template gives {want_size}", case=case1, detail={}))
        ka, kb = keys_by_def.get(da["id"], set()), keys_by_def.get(db["id"], set())
        if len(ka) != 1 or len(kb) != 1:
            viols.append(dict(assertion="isomorphic-residues-share-template", tags=[], message=f"instances of one molecule type got several keys {ka} {kb}", case=case1, detail={}))
        elif iso(da, db) != (ka == kb) and (iso(da, db) or sorted(da["names"]) != sorted(db["names"])):
            viols.append(dict(assertion="isomorphic-residues-share-template" if iso(da, db) else "different-atom-names-different-template", tags=["same-resname-different-content"],
                              message=f"{da['id']} vs {db['id']}: isomorphic={iso(da, db)} keys {ka} {kb}", case=case1, detail={}))
        keys.append(f"twomol:{da['id']}|{db['id']}")
    return viols, evals, keys


def check_vs_residues(case):
    viols, evals, keys = [], 0, []
    base = dict(id="vsbase", names=["A", "B", "C", "D", "V"], bonds=[(0, 1, 0.3), (1, 2, 0.3), (2, 3, 0.3)], angles=[(0, 1, 2, 110.0), (1, 2, 3, 110.0)])
    for kind, (sec, func, ndef, grid) in VS_KINDS.items():
        for params in grid:
            for layout in (0, 1, 2):
                idx = list(range(1, ndef + 1))
                if sec == "virtual_sitesn":
                    line = "5 1 " + " ".join(map(str, idx))
                else:
                    line = "5 " + " ".join(map(str, idx)) + f" {func} " + " ".join(map(str, params))
                evals += 1
                case1 = dict(kind="vsres1", vs=kind, params=list(params), layout=layout)
                try:
                    top, recs = gen_templates(top_for([base], ["R"], extra_inter={sec: [line]}), None, layout)
                except Exception as exc:  # noqa
                    viols.append(crash_violation(exc, case1, assertion="templates-generated"))
                    continue
                v, tkeys = judge_templates(top, recs, [base], ["R"], case1)
                viols += v
                mm = top.molecules[0]
                tmpl = mm.templates.get(tkeys[0]) if tkeys else None
                if tmpl and all(n in tmpl for n in base["names"]):
                    pts = [np.asarray(tmpl[base["names"][i - 1]], dtype=float) for i in idx]
                    want = manual_vs(kind, params, pts)
                    got = np.asarray(tmpl["V"], dtype=float)
                    if not np.abs(got - want).max() <= 1e-6:
                        viols.append(dict(assertion="virtual-site-on-manual-formula", tags=[f"vs:{kind}", "in-template"],
                                          message=f"{kind} {params}: template site {got} expected {want}", case=case1, detail={}))
                keys.append(f"vsres:{kind}:{params}:{layout}")
    return viols, evals, keys


def check_vs_nested(case):
    """a virtual site built from another, simpler virtual site (valid in GROMACS, which constructs the kinds in the order
    n, 2, 3, 4), with the two directives written in either order in the file and an improper that only the second
    optimisation stage enforces: both sites sit where the manual formulas put them from the final template"""
    viols, evals, keys = [], 0, []
    base = dict(id="vsnest", names=["A", "B", "C", "D", "V", "W"], bonds=[(0, 1, 0.3), (1, 2, 0.3), (2, 3, 0.3)], angles=[(0, 1, 2, 110.0), (1, 2, 3, 110.0)])
    combos = [("2", (0.3,), "3", (0.2, 0.3)), ("2", (0.5,), "3out", (0.2, 0.3, 1.5)), ("n", (), "3", (0.5, 0.5)), ("2", (1.2,), "4fdn", (0.5, 0.6, 0.1))]
    for k1, p1, k2, p2 in combos:
        sec1, f1, n1, _ = VS_KINDS[k1]
        sec2, f2, n2, _ = VS_KINDS[k2]
        # V (atom 5) from real atoms 1..n1 ; W (atom 6) from V and the real atoms 3, 4 (, 2)
        l1 = ("5 1 " + " ".join(map(str, range(1, n1 + 1)))) if sec1 == "virtual_sitesn" else \
            ("5 " + " ".join(map(str, range(1, n1 + 1))) + f" {f1} " + " ".join(map(str, p1)))
        defs2 = [5, 3, 4, 2][:n2]
        l2 = "6 " + " ".join(map(str, defs2)) + f" {f2} " + " ".join(map(str, p2))
        for order in ("canonical", "reversed"):
            for improper in (None, "1 2 3 4 2 50 100"):
                for layout in (0, 1):
                    extra = {}
                    secs = [(sec1, l1), (sec2, l2)] if order == "canonical" else [(sec2, l2), (sec1, l1)]
                    for sec, ln in secs:
                        extra.setdefault(sec, []).append(ln)
                    if improper:
                        extra["dihedrals"] = [improper]
                    evals += 1
                    case1 = dict(kind="vsnest1", k1=k1, k2=k2, order=order, improper=bool(improper), layout=layout)
                    try:
                        top, recs = gen_templates(top_for([base], ["R"], extra_inter=extra), None, layout)
                    except Exception as exc:  # noqa
                        viols.append(crash_violation(exc, case1, assertion="templates-generated", tags=["nested-virtual-sites"]))
                        continue
                    mm = top.molecules[0]
                    tmpl = mm.templates.get(mm.nodes[0].get("template"))
                    if not tmpl or any(n not in tmpl for n in base["names"]):
                        viols.append(dict(assertion="template-holds-the-residue-atom-names", tags=["nested-virtual-sites"], message=f"{case1}: template {tmpl and sorted(tmpl)}", case=case1, detail={}))
                        continue
                    P = {n: np.asarray(tmpl[n], dtype=float) for n in base["names"]}
                    idx2name = {i + 1: n for i, n in enumerate(base["names"])}
                    wantV = manual_vs(k1, p1, [P[idx2name[i]] for i in range(1, n1 + 1)])
                    wantW = manual_vs(k2, p2, [P[idx2name[i]] for i in defs2])
                    for nm, want in (("V", wantV), ("W", wantW)):
                        if not np.abs(P[nm] - want).max() <= 1e-6 and len(viols) < 20:
                            viols.append(dict(assertion="virtual-site-on-manual-formula", tags=["nested-virtual-sites", f"order:{order}"],
                                              message=f"site {nm} ({k1 if nm == 'V' else k2}) at {P[nm]} but the formula gives {want} from the template; directives {order}, improper {bool(improper)}",
                                              case=case1, detail={}))
                    keys.append(f"vsnest:{k1}:{k2}:{order}:{bool(improper)}:{layout}")
    return viols, evals, keys


def check_vs_unoptimised(case):
    """a residue whose constraints contradict each other (triangle inequality) can never be optimised; polyply then proceeds
    with the coordinates it has - the virtual sites in the delivered template must still sit on their constructions"""
    viols, evals, keys = [], 0, []
    base = dict(id="frustrated", names=["A", "B", "C", "V", "W"], bonds=[], angles=[])
    cons = ["1 2 1 0.1", "2 3 1 0.1", "1 3 1 0.5"]
    for k1, p1 in (("2", (0.3,)), ("2", (1.2,))):
        for order in ("vs-first", "vs-last"):
            for layout in (0, 1, 2):
                l2 = "4 1 3 1 " + " ".join(map(str, p1))
                ln = "5 1 1 2 3"
                extra = {"constraints": cons}
                if order == "vs-first":
                    extra = {"virtual_sites2": [l2], "virtual_sitesn": [ln], "constraints": cons}
                else:
                    extra.update({"virtual_sitesn": [ln], "virtual_sites2": [l2]})
                evals += 1
                case1 = dict(kind="vsunopt1", params=list(p1), order=order, layout=layout)
                try:
                    top, recs = gen_templates(top_for([base], ["R"], extra_inter=extra), None, layout)
                except Exception as exc:  # noqa
                    viols.append(crash_violation(exc, case1, assertion="templates-generated", tags=["never-optimised"]))
                    continue
                mm = top.molecules[0]
                tmpl = mm.templates.get(mm.nodes[0].get("template"))
                if not tmpl or any(n not in tmpl for n in base["names"]):
                    viols.append(dict(assertion="template-holds-the-residue-atom-names", tags=["never-optimised"], message=f"template {tmpl and sorted(tmpl)}", case=case1, detail={}))
                    continue
                P = {n: np.asarray(tmpl[n], dtype=float) for n in base["names"]}
                wantV = manual_vs("2", p1, [P["A"], P["C"]])
                wantW = manual_vs("n", (), [P["A"], P["B"], P["C"]])
                for nm, want in (("V", wantV), ("W", wantW)):
                    if not np.abs(P[nm] - want).max() <= 1e-6 and len(viols) < 20:
                        viols.append(dict(assertion="virtual-site-on-manual-formula", tags=["never-optimised"],
                                          message=f"residue that cannot be optimised: site {nm} at {P[nm]}, the formula gives {want} from the delivered template", case=case1, detail={}))
                cog = np.mean(list(P.values()), axis=0)
                if not np.abs(cog).max() <= 1e-9:
                    viols.append(dict(assertion="template-centre-of-geometry-zero", tags=["never-optimised"], message=f"centre {cog}", case=case1, detail={}))
                if any(r["ok"] for r in recs[1::2]):
                    viols.append(dict(assertion="optimised-template-meets-targets", tags=["never-optimised"],
                                      message="contradictory constraints (0.1 + 0.1 < 0.5) were reported as optimised", case=case1, detail={}))
                keys.append(f"vsunopt:{p1}:{order}:{layout}")
    return viols, evals, keys


def check_user(case):
    """build files with [ template ] / [ volumes ] for a subset of residues"""
    viols, evals, keys = [], 0, []
    d3 = dict(id="u3", names=["A", "B", "C"], bonds=[(0, 1, 0.3), (1, 2, 0.3)], angles=[(0, 1, 2, 120.0)])
    d2 = dict(id="u2", names=["A", "B"], bonds=[(0, 1, 0.3)], angles=[])
    tmpl3 = {"A": (0.0, 0.0, 0.0), "B": (0.31, 0.0, 0.02), "C": (0.45, 0.27, 0.0)}
    for give_t, give_v3, give_v2 in itertools.product((False, True), repeat=3):
        for order, skip, split in itertools.product(("volumes-first", "template-first"), (False, True), (False, True, "repeat")):
            if split and skip:
                continue
            if split == "repeat" and not give_t:
                continue
            blocks = []
            tblock = ("[ template ]\nresname R\n[ atoms ]\n" + "".join(f"{n} P {p[0]} {p[1]} {p[2]}\n" for n, p in tmpl3.items()) + "[ bonds ]\nA B\nB C\n") if give_t else ""
            vlines = []
            if give_v3:
                vlines.append("R 0.77")
            if give_v2:
                vlines.append("Q 0.33")
            vblock = ("[ volumes ]\n" + "\n".join(vlines) + "\n") if vlines else ""
            bld = (vblock + tblock) if order == "volumes-first" else (tblock + vblock)
            tmpl3b = {n: (p[0] * 1.05, p[1] * 1.05, p[2] + 0.01) for n, p in tmpl3.items()}
            if split == "repeat":
                # a second build file gives a template for the same residue again (refined coordinates) and no size: the
                # size given in the first file still counts
                bld = [bld, "[ template ]\nresname R\n[ atoms ]\n" + "".join(f"{n} P {p[0]} {p[1]} {p[2]}\n" for n, p in tmpl3b.items()) + "[ bonds ]\nA B\nB C\n"]
            elif split:
                # the same directives spread over two build files, in the same order
                bld = [vblock, tblock] if order == "volumes-first" else [tblock, vblock]
            evals += 1
            case1 = dict(kind="user1", give_t=give_t, give_v3=give_v3, give_v2=give_v2, order=order, skip=skip, split=split)
            try:
                top, recs = gen_templates(top_for([d3, d2, d3], ["R", "Q", "R"]), bld, 0, skip_filter=skip)
            except Exception as exc:  # noqa
                viols.append(crash_violation(exc, case1, assertion="templates-generated"))
                continue
            v, tkeys = judge_templates(top, recs, [d3, d2, d3], ["R", "Q", "R"], case1)
            viols += v
            mm = top.molecules[0]
            if give_t and tkeys[0] in mm.templates:
                def deviation(t):
                    cog = np.mean(np.array(list(t.values())), axis=0)
                    return max(np.abs(np.asarray(mm.templates[tkeys[0]][n]) - (np.array(p) - cog)).max() for n, p in t.items())
                # two user templates for one residue: which of the two wins is not stated, it has to be one of them
                dev = min(deviation(t) for t in ([tmpl3, tmpl3b] if split == "repeat" else [tmpl3]))
                if not dev <= 1e-9:
                    viols.append(dict(assertion="user-template-used-unchanged", tags=[], message=f"template {dict(mm.templates[tkeys[0]])} is not the centred user template (deviation {dev})", case=case1, detail={}))
                regenerated = [r for r in recs if sorted(r["block"].nodes) == ["A", "B", "C"]]
                if regenerated:
                    viols.append(dict(assertion="user-template-not-regenerated", tags=[], message="a template was optimised for a residue with a user template", case=case1, detail={}))
            if give_v3 and top.volumes.get(tkeys[0]) != 0.77:
                viols.append(dict(assertion="user-size-used-unchanged", tags=[], message=f"size of R {top.volumes.get(tkeys[0])} expected 0.77 ({bld!r})", case=case1, detail={}))
            if give_v2 and top.volumes.get(tkeys[1]) != 0.33:
                viols.append(dict(assertion="user-size-used-unchanged", tags=[], message=f"size of Q {top.volumes.get(tkeys[1])} expected 0.33", case=case1, detail={}))
            keys.append(f"user:{give_t}:{give_v3}:{give_v2}:{order}:{skip}:{split}")
    return viols, evals, keys


CHIRAL_ITP = """[ moleculetype ]
CHI 1
[ atoms ]
1 P 1 CHI CA 1 0.0 12.0
2 P 1 CHI N 2 0.0 14.0
3 P 1 CHI C 3 0.0 12.0
4 P 1 CHI CB 4 0.0 12.0
[ bonds ]
1 2 1 0.147 1000
1 3 1 0.153 1000
1 4 1 0.153 1000
[ angles ]
2 1 3 1 109.5 100
2 1 4 1 109.5 100
3 1 4 1 109.5 100
[ dihedrals ]
1 2 3 4 2 {ref} 100
"""


def check_optgeom(case):
    """optimize_geometry driven directly on a chiral centre from enumerated starting structures (the target geometry, its
    mirror image, a flattened one, each under lattice perturbations): whenever success is reported all targets hold"""
    import vermouth.forcefield
    from polyply.src.polyply_parser import read_polyply
    from polyply.src.minimizer import optimize_geometry
    viols, evals, keys = [], 0, []
    base = {"CA": np.array([0.0, 0.0, 0.0]), "N": np.array([0.1386, 0.0, -0.049]), "C": np.array([-0.0721, 0.1249, -0.051]),
            "CB": np.array([-0.0721, -0.1249, -0.051])}
    for ref in (35.26439, -35.26439, 0.0):
        ff = vermouth.forcefield.ForceField("x")
        read_polyply(CHIRAL_ITP.format(ref=ref).splitlines(keepends=True), ff)
        block0 = ff.blocks["CHI"]
        nodes = list(block0.nodes)
        names = {n: block0.nodes[n]["atomname"] for n in nodes}
        for shape in ("as-is", "mirror", "flat"):
            for pert in itertools.product((-0.02, 0.0, 0.02), repeat=3):
                coords = {}
                for i, n in enumerate(nodes):
                    p = base[names[n]].copy()
                    if shape == "mirror":
                        p[2] = -p[2]
                    if shape == "flat":
                        p[2] = 0.0 if names[n] != "CA" else 0.001
                    if names[n] == "CB":
                        p = p + np.array(pert)
                    coords[n] = p
                evals += 1
                case1 = dict(kind="optgeom1", ref=ref, shape=shape, pert=list(pert))
                try:
                    block = block0
                    ok1, c1 = optimize_geometry(block, dict(coords), ["bonds", "constraints", "angles"])
                    ok2, c2 = optimize_geometry(block, c1, ["bonds", "constraints", "angles", "dihedrals"])
                except Exception as exc:  # noqa
                    viols.append(crash_violation(exc, case1, assertion="optimisation-runs"))
                    continue
                if not ok2:
                    continue
                pts = {names[n]: np.asarray(c2[n], dtype=float) for n in nodes}
                dev = abs(dihedral_deg(pts["CA"], pts["N"], pts["C"], pts["CB"]) - ref)
                dev = min(dev, 360 - dev)
                if not dev <= 5 + 1e-6:
                    viols.append(dict(assertion="optimised-template-meets-targets", tags=["improper"],
                                      message=f"improper CA-N-C-CB = {dihedral_deg(pts['CA'], pts['N'], pts['C'], pts['CB']):.2f} deg, target {ref}, start {shape} {pert}: reported optimised", case=case1, detail={}))
                for a, b, l in (("CA", "N", 0.147), ("CA", "C", 0.153), ("CA", "CB", 0.153)):
                    if not abs(np.linalg.norm(pts[a] - pts[b]) - l) <= 0.05 + 1e-9:
                        viols.append(dict(assertion="optimised-template-meets-targets", tags=["bond"], message=f"bond {a}-{b} off, start {shape} {pert}", case=case1, detail={}))
                keys.append(f"optgeom:{ref}:{shape}:{pert}")
    return viols, evals, keys


def check_constr(case):
    """residues whose geometry is held by constraints (alone or next to bonds) and shaped by an improper: two fused
    triangles A-B-C / B-C-D; the improper A-B-C-D opens or folds the hinge"""
    viols, evals, keys = [], 0, []
    ring = [(0, 1), (1, 2), (0, 2), (1, 3), (2, 3)]
    for held in ("constraints", "bonds", "mixed"):
        for ref in (180.0, 140.0, -140.0, 100.0):
            for layout in (0, 1, 2):
                d = dict(id=f"fused.{held}", names=["A", "B", "C", "D"], bonds=[], angles=[])
                cons = []
                for k, (a, b) in enumerate(ring):
                    if held == "bonds" or (held == "mixed" and k % 2):
                        d["bonds"].append((a, b, 0.3))
                    else:
                        cons.append(f"{a + 1} {b + 1} 1 0.3")
                extra = {}
                if cons:
                    extra["constraints"] = cons
                extra["dihedrals"] = [f"1 2 3 4 2 {ref} 50"]
                evals += 1
                case1 = dict(kind="constr1", held=held, ref=ref, layout=layout)
                try:
                    top, recs = gen_templates(top_for([d], ["R"], extra_inter=extra), None, layout)
                except Exception as exc:  # noqa
                    viols.append(crash_violation(exc, case1, assertion="templates-generated"))
                    continue
                dd = dict(d, bonds=[(a, b, 0.3) for a, b in ring])
                v, _ = judge_templates(top, recs, [dd], ["R"], case1)
                viols += v
                if any(r["ok"] for r in recs[1::2]):
                    keys.append(f"constr:{held}:{ref}:{layout}")
    return viols, evals, keys


def cases(tier):
    yield dict(kind="vs", tier=tier)
    yield dict(kind="optgeom", tier=tier)
    yield dict(kind="constr", tier=tier)
    nparts = 24
    for p in range(nparts):
        yield dict(kind="pairs", part=p, nparts=nparts, tier=tier)
    yield dict(kind="vsres", tier=tier)
    yield dict(kind="vsnest", tier=tier)
    yield dict(kind="vsunopt", tier=tier)
    for p in range(8):
        yield dict(kind="twomol", part=p, nparts=8, tier=tier)
    yield dict(kind="user", tier=tier)


FUNCS = {"vsunopt": check_vs_unoptimised, "vsnest": check_vs_nested, "constr": check_constr, "optgeom": check_optgeom, "twomol": check_two_molecules, "vs": check_vs, "pairs": check_pairs, "vsres": check_vs_residues, "user": check_user}


def run_case(case):
    if case["kind"] not in FUNCS:
        fam = {"vs1": "vs", "pair1": "pairs", "vsres1": "vsres", "user1": "user", "twomol1": "twomol", "optgeom1": "optgeom", "constr1": "constr", "vsnest1": "vsnest", "vsunopt1": "vsunopt"}[case["kind"]]
        out = []
        for part in range(24 if fam == "pairs" else 1):
            v, _, _ = FUNCS[fam](dict(kind=fam, tier="thorough", part=part, nparts=24))
            out += [x for x in v if all(x["case"].get(k) == case[k] for k in case if k not in ("kind", "R", "t"))]
            if out:
                break
        return dict(evals=1, keys=[], violations=out, stats={})
    v, evals, keys = FUNCS[case["kind"]](case)
    return dict(evals=evals, keys=keys, violations=v, stats={f"inputs_{case['kind']}": evals},
                sample={k: v for k, v in case.items()})
