"""C10 - every residue-graph edge is realised by a bond or reported as missing."""
import json, re
import networkx as nx
from .. import ffmodel as F, gp_harness as H, gp_cases, gp_run, ref_genparams as R
from ..runner import crash_violation

PID = "C10"
LEVEL = "exploration"
RULE = ("processor level: force fields with no / every single link / 40 pairs of links (all, some or none applicable) x all labelled "
        "connected residue graphs n<=4 x resname assignments: independent recount on the molecule the real pipeline built "
        "(bonded(u,v) := some atom-level edge joins an atom of residue u with an atom of v) must equal exactly the complement of "
        "find_missing_edges' reports, no duplicates; program level (n<=3): the WARNING records of gen_params must name exactly "
        "those residue pairs; gate: gen_coords' molecule check must raise iff the atoms of a molecule are not all connected "
        "(connected / split between residues / split inside a residue). non-trivial = input with >=1 missing and >=1 realised edge")
ASSUMPTIONS = ["atom -> residue membership is read from the atoms' resid attribute of the built molecule"]
BUDGET = {"quick": 420, "thorough": 2400}

PAIRS_Q = [["bbA", "a_c"], ["a_c", "edge_only"], ["bbA", "rm"], ["pat", "circ"], ["lab", "bbA"], ["nonedge", "bbA"],
           ["star", "bbA"], ["gt", "rm"], ["lt_sa", "pat"], ["edge_only", "rm"], ["rm0", "gt"], ["rm0", "lt_sa"], ["rm0", "rm"]]


def cases(tier):
    variants = [v for v in gp_cases.ff_variants(tier) if len(v["links"]) <= 1]
    variants += [dict(links=p) for p in PAIRS_Q]
    # a residue that a link leaves without atoms: its residue-graph edges are reported, not skipped
    variants += [dict(links=["rm_all"]), dict(links=["bb", "rm_all"])]
    if tier == "thorough":
        variants = gp_cases.ff_variants("quick")
    for variant in variants:
        for n in range(2, 5):
            yield {"kind": "proc", "variant": variant, "n": n, "tier": tier}
    for variant in [v for v in variants if len(v["links"]) <= 1][:18]:
        for n in (2, 3):
            yield {"kind": "prog", "variant": variant, "n": n, "tier": tier}
    for shape in GATE_SHAPES:
        yield {"kind": "gate", "shape": shape, "tier": tier}
    yield {"kind": "fromitp", "tier": tier}
    yield {"kind": "explicit", "tier": tier}


def recount(mm, rg_nodes_by_resid):
    mol = mm.molecule
    bonded = set()
    for a, b in mol.edges:
        ra, rb = mol.nodes[a]["resid"], mol.nodes[b]["resid"]
        if ra != rb:
            bonded.add(frozenset((ra, rb)))
    return bonded


def check_proc(variant, spec, rg, stats, case1):
    viols = []
    try:
        R.build(spec, rg)
    except (R.Unspecified, R.Rejected):
        return viols, False
    ff = gp_run.parsed_ff(variant, spec)
    try:
        mm, missing = H.run_processors(ff, H.build_resgraph(rg))
    except Exception as exc:  # noqa
        return [crash_violation(exc, case1, assertion="pipeline-accepts-valid-input")], False
    bonded = recount(mm, None)
    want = sorted(tuple(sorted((rg["resids"][a], rg["resids"][b]))) for a, b in rg["edges"]
                  if frozenset((rg["resids"][a], rg["resids"][b])) not in bonded)
    got = sorted(tuple(sorted((m["idxA"], m["idxB"]))) for m in missing)
    tags = ["links:" + "+".join(variant["links"])]
    if got != want:
        viols.append(dict(assertion="missing-iff-not-bonded", tags=tags,
                          message=f"reported {got}, residue edges without atom-level edge {want} | links={variant['links']} rg={json.dumps(rg)}",
                          case=case1, detail={}))
    for m in missing:
        names = {rg["resids"][i]: rg["resnames"][i] for i in range(rg["n"])}
        if names.get(m["idxA"]) != m["resA"] or names.get(m["idxB"]) != m["resB"]:
            viols.append(dict(assertion="warning-names-both-residues", tags=tags, message=f"{m} vs {names}", case=case1, detail={}))
    return viols, bool(want) and len(want) < len(rg["edges"])


WARN = re.compile(r"Missing a link between residue (\S+) (\S+) and residue (\S+) (\S+)\.")


def check_prog(variant, spec, rg, stats, case1):
    viols = []
    try:
        R.build(spec, rg)
    except (R.Unspecified, R.Rejected):
        return viols, False
    with H.tempdir() as d:
        r = H.run_gen_params(d, [("ff.ff", F.render_ff(spec))], graph=H.build_resgraph(rg))
        if r["exc"] is not None:
            return [crash_violation(r["exc"], case1, assertion="pipeline-accepts-valid-input")], False
        itp = H.read_itp_plain(r["itp_path"])
    res_of = {a["idx"]: a["resid"] for a in itp["atoms"]}
    bonded = set()
    # atom-level edges visible in the file: bonds, constraints, angles, proper dihedrals join consecutive atoms
    for sec in ("bonds", "constraints", "angles", "dihedrals"):
        nat = {"bonds": 2, "constraints": 2, "angles": 3, "dihedrals": 4}[sec]
        for tok, guard in itp["inter"].get(sec, []):
            at = [int(x) for x in tok[:nat]]
            for a, b in zip(at[:-1], at[1:]):
                if res_of[a] != res_of[b]:
                    bonded.add(frozenset((res_of[a], res_of[b])))
    # links may also add edges without any written interaction ([ edges ]); those inputs are judged at processor level
    cap = r["captured"]
    key_res = {a["key"]: a["resid"] for a in cap["atoms"]}
    cap_bonded = {frozenset((key_res[a], key_res[b])) for a, b in cap["edges"] if key_res[a] != key_res[b]}
    warned = []
    for lvl, msg, _ in r["logs"]:
        m = WARN.search(msg)
        if m and lvl == "WARNING":
            warned.append(tuple(sorted((int(m.group(1)), int(m.group(3))))))
    want = sorted(tuple(sorted((rg["resids"][a], rg["resids"][b]))) for a, b in rg["edges"]
                  if frozenset((rg["resids"][a], rg["resids"][b])) not in cap_bonded)
    if sorted(warned) != want:
        viols.append(dict(assertion="warning-iff-not-bonded", tags=["links:" + "+".join(variant["links"])],
                          message=f"warnings {sorted(warned)} expected {want} | links={variant['links']} rg={json.dumps(rg)}",
                          case=case1, detail={}))
    if cap_bonded == bonded:
        stats["file_bonds_agree_with_molecule"] = stats.get("file_bonds_agree_with_molecule", 0) + 1
    return viols, bool(want) and len(want) < len(rg["edges"])


# ---- gen_coords connectivity gate
GATE_SHAPES = ["split-three-parts", "split-four-parts", "split-chain-middle", "connected-1res", "connected-2res", "split-between-residues", "split-inside-residue-settles",
               "split-inside-residue-nobonds", "single-atom", "connected-by-constraint"]

GATE_ITP = {
    "connected-1res": ("[ atoms ]\n1 P1 1 R a 1\n2 P1 1 R b 2\n[ bonds ]\n1 2 1 0.3 100\n", True),
    "connected-2res": ("[ atoms ]\n1 P1 1 R a 1\n2 P1 2 R a 2\n[ bonds ]\n1 2 1 0.3 100\n", True),
    "split-between-residues": ("[ atoms ]\n1 P1 1 R a 1\n2 P1 2 R a 2\n", False),
    "split-three-parts": ("[ atoms ]\n1 P1 1 R a 1\n2 P1 2 R a 2\n3 P1 3 R a 3\n", False),
    "split-four-parts": ("[ atoms ]\n1 P1 1 R a 1\n2 P1 2 R a 2\n3 P1 3 R a 3\n4 P1 4 R a 4\n[ bonds ]\n", False),
    "split-chain-middle": ("[ atoms ]\n1 P1 1 R a 1\n2 P1 2 R a 2\n3 P1 3 R a 3\n4 P1 4 R a 4\n5 P1 5 R a 5\n6 P1 6 R a 6\n"
                           "[ bonds ]\n1 2 1 0.3 100\n3 4 1 0.3 100\n5 6 1 0.3 100\n", False),
    "split-inside-residue-settles": ("[ atoms ]\n1 P1 1 R a 1\n2 P1 1 R b 2\n3 P1 1 R c 3\n[ settles ]\n1 1 0.1 0.16\n", False),
    "split-inside-residue-nobonds": ("[ atoms ]\n1 P1 1 R a 1\n2 P1 1 R b 2\n", False),
    "single-atom": ("[ atoms ]\n1 P1 1 R a 1\n", True),
    "connected-by-constraint": ("[ atoms ]\n1 P1 1 R a 1\n2 P1 2 R a 2\n[ constraints ]\n1 2 1 0.3\n", True),
}


def check_gate(shape, case1):
    from polyply.src.topology import Topology
    from polyply.src.gen_coords import _check_molecules
    body, connected = GATE_ITP[shape]
    viols = []
    # the molecule type alone, and listed after / between connected molecules of another type (the gate looks at every molecule)
    for place, mols in (("only", "M 1\n"), ("second", "OK 1\nM 1\n"), ("last-of-many", "OK 2\nM 1\nOK 1\nM 1\n")):
        with H.tempdir() as d:
            (d / "m.itp").write_text("[ moleculetype ]\nM 1\n" + body + "[ moleculetype ]\nOK 1\n[ atoms ]\n1 P1 1 R a 1\n2 P1 2 R a 2\n[ bonds ]\n1 2 1 0.3 100\n")
            (d / "s.top").write_text("[ defaults ]\n1 1 no 1.0 1.0\n[ atomtypes ]\nP1 72.0 0.0 A 0.47 4.0\n#include \"m.itp\"\n"
                                     "[ system ]\nx\n[ molecules ]\n" + mols)
            top = Topology.from_gmx_topfile(d / "s.top", "x")
            top.preprocess()
            mol = [m for m in top.molecules if m.mol_name == "M"][0].molecule
            g = nx.Graph()
            g.add_nodes_from(mol.nodes)
            g.add_edges_from(mol.edges)
            really_connected = nx.is_connected(g)
            try:
                _check_molecules(top.molecules)
                raised = False
            except IOError:
                raised = True
        if really_connected != connected:
            viols.append(dict(assertion="harness-gate-shape", tags=["harness"], message=f"{shape}: atom graph connected={really_connected}", case=case1, detail={}))
        if raised == connected:
            viols.append(dict(assertion="gate-raises-iff-atoms-disconnected", tags=[f"shape:{shape}", f"place:{place}"] + (["split-inside-one-residue"] if shape.startswith("split-inside-residue") else []),
                              message=f"{shape} ({place} in [ molecules ]): atoms connected={connected} but gate raised={raised}", case=case1, detail={}))
    return viols


# ------------------------------------------------------------------ multi-residue (from_itp) fragments
M_CONTIG = """[ moleculetype ]
M 1
[ atoms ]
1 X1 1 MA x1 1 0.0 10.0
2 X2 1 MA x2 2 0.0 10.0
3 Y1 2 MB y1 3 0.0 10.0
4 Y2 2 MB y2 4 0.0 10.0
[ bonds ]
1 2 1 0.2 100
3 4 1 0.2 100
2 4 1 0.2 100
"""
# the same molecule with its atoms listed backbone first, side atoms after: the atoms of a residue are not contiguous and the
# only bond between the two residues joins atoms listed after the first run
M_INTERLEAVED = """[ moleculetype ]
M 1
[ atoms ]
1 X1 1 MA x1 1 0.0 10.0
2 Y1 2 MB y1 2 0.0 10.0
3 X2 1 MA x2 3 0.0 10.0
4 Y2 2 MB y2 4 0.0 10.0
[ bonds ]
1 3 1 0.2 100
2 4 1 0.2 100
3 4 1 0.2 100
"""


def check_fromitp(case):
    """residue graphs made of copies of a two-residue from_itp molecule and ordinary residues: junctions between copies have
    no link (must be reported), edges inside a copy are bonded by the itp (must not be), A -> next is bonded by A's dangling bond"""
    viols, evals, keys = [], 0, []
    import itertools
    for layout, mtxt in (("contiguous", M_CONTIG), ("interleaved", M_INTERLEAVED)):
        ff_text = mtxt + F.render_block_itp("A", F.BLOCKS["A"], dangling={"bonds": [((1, 3), ("1", "0.40", "500"), {})]}) + F.render_block_itp("B", F.BLOCKS["B"])
        for k in (1, 2, 3):
            for seq in itertools.product("AM", repeat=k):
                if "M" not in seq:
                    continue
                residues = []
                for tok in seq:
                    residues += [("MA", True), ("MB", True)] if tok == "M" else [(tok, False)]
                n = len(residues)
                rg = dict(n=n, edges=[[i, i + 1] for i in range(n - 1)], resids=[1 + i for i in range(n)], resnames=[r[0] for r in residues],
                          node_attrs={str(i): {"from_itp": "M"} for i, r in enumerate(residues) if r[1]})
                # expected: edge (i, i+1) is realised iff residue i is MA (inside a copy), or A followed by an ordinary residue
                # (A's dangling bond names the atom BB of the next residue, which the copies of M do not have)
                want = sorted((i + 1, i + 2) for i in range(n - 1)
                              if not (residues[i][0] == "MA" or (residues[i][0] == "A" and not residues[i + 1][1])))
                evals += 1
                case1 = dict(kind="fromitp1", layout=layout, seq=list(seq))
                try:
                    mm, missing = H.run_processors(H.parse_ff([("itp", ff_text)]), H.build_resgraph(rg))
                except Exception as exc:  # noqa
                    viols.append(crash_violation(exc, case1, assertion="pipeline-accepts-valid-input", tags=["from_itp", layout]))
                    continue
                got = sorted(tuple(sorted((m["idxA"], m["idxB"]))) for m in missing)
                bonded = sorted(tuple(sorted(x)) for x in recount(mm, None))
                realised = sorted(set((i + 1, i + 2) for i in range(n - 1)) - set(want))
                if got != want and len(viols) < 20:
                    viols.append(dict(assertion="missing-iff-not-bonded", tags=["from_itp", layout],
                                      message=f"{layout} itp, sequence {list(seq)}: reported {got}, residue edges without atom-level edge {want} (bonded pairs {bonded})", case=case1, detail={}))
                if bonded != realised and len(viols) < 20:
                    viols.append(dict(assertion="harness-fromitp-structure", tags=["harness"], message=f"{layout} {seq}: bonded {bonded} expected {realised}", case=case1, detail={}))
                keys.append(json.dumps([layout, seq]))
    return dict(evals=evals, keys=keys, violations=viols, stats={"inputs_fromitp": evals}, sample=dict(kind="fromitp", inputs=evals))


def check_explicit(case):
    """junction bonds made by explicit links ([ molmeta ] by_atom_id true), through the program: sequences over A (2 atoms),
    B (1 atom), C (3 atoms); every subset of the junctions gets a bond last atom of residue i - first atom of residue i+1
    (one link holding all bonds / one link per bond), optionally next to an explicit bond inside a residue at the boundary.
    Oracle: the pairs warned about are exactly the residue edges without a bond in the written file, and the atom-level
    edges of the molecule that was built join the same residue pairs as the bonds of the file"""
    import itertools
    viols, evals, keys = [], 0, []
    spec = gp_cases.make_spec({"links": [], "blocks": "ABC"})
    ff_txt = F.render_ff(spec)
    for k in (2, 3):
        for seq in itertools.product("ABC", repeat=k):
            sizes = [len(F.BLOCKS[t]["atoms"]) for t in seq]
            first = [sum(sizes[:i]) for i in range(k)]
            last = [first[i] + sizes[i] - 1 for i in range(k)]
            for joined in itertools.product([0, 1], repeat=k - 1):
                for intra in (False, True):
                    for per_bond in (False, True):
                        lines = [f"{last[i] + 1} {first[i + 1] + 1} 1 0.4{i} 50{i}" for i in range(k - 1) if joined[i]]
                        if intra:
                            # a bond inside the first residue that has two atoms, between its last two atoms
                            big = [i for i in range(k) if sizes[i] >= 2]
                            if not big:
                                continue
                            lines.append(f"{last[big[0]]} {last[big[0]] + 1} 1 0.39 390")
                        if not lines:
                            continue
                        if per_bond:
                            link_txt = "".join("[ link ]\n[ molmeta ]\nby_atom_id true\n[ bonds ]\n" + ln + "\n" for ln in lines)
                        else:
                            link_txt = "[ link ]\n[ molmeta ]\nby_atom_id true\n[ bonds ]\n" + "\n".join(lines) + "\n"
                        rg = dict(n=k, edges=[[i, i + 1] for i in range(k - 1)], resids=[1 + i for i in range(k)], resnames=list(seq))
                        case1 = dict(kind="explicit1", seq=list(seq), joined=list(joined), intra=intra, per_bond=per_bond)
                        evals += 1
                        with H.tempdir() as d:
                            r = H.run_gen_params(d, [("ff.ff", ff_txt), ("links.ff", link_txt)], graph=H.build_resgraph(rg))
                            if r["exc"] is not None:
                                viols.append(crash_violation(r["exc"], case1, assertion="pipeline-accepts-valid-input", tags=["explicit-link"]))
                                continue
                            itp = H.read_itp_plain(r["itp_path"])
                        res_of = {a["idx"]: a["resid"] for a in itp["atoms"]}
                        bonded = set()
                        for tok, guard in itp["inter"].get("bonds", []):
                            a, b = int(tok[0]), int(tok[1])
                            if res_of[a] != res_of[b]:
                                bonded.add((min(res_of[a], res_of[b]), max(res_of[a], res_of[b])))
                        cap = r["captured"]
                        key_res = {a["key"]: a["resid"] for a in cap["atoms"]}
                        cap_bonded = {tuple(sorted((key_res[a], key_res[b]))) for a, b in cap["edges"] if key_res[a] != key_res[b]}
                        warned = sorted(tuple(sorted((int(m.group(1)), int(m.group(3))))) for lvl, msg, _ in r["logs"]
                                        for m in [WARN.search(msg)] if m and lvl == "WARNING")
                        want_bonded = {(i + 1, i + 2) for i in range(k - 1) if joined[i]}
                        want_warn = sorted((i + 1, i + 2) for i in range(k - 1) if not joined[i])
                        info = f" | sequence {list(seq)} explicit bonds {lines} ({'one link per bond' if per_bond else 'one link'})"
                        if bonded != want_bonded and len(viols) < 20:
                            viols.append(dict(assertion="harness-explicit-structure", tags=["harness"], message=f"file bonds join {sorted(bonded)} expected {sorted(want_bonded)}" + info, case=case1, detail={}))
                        if warned != want_warn and len(viols) < 20:
                            viols.append(dict(assertion="warning-iff-not-bonded", tags=["explicit-link"],
                                              message=f"warnings {warned}, residue edges without a bond in the file {want_warn}" + info, case=case1, detail={}))
                        if cap_bonded != bonded and len(viols) < 20:
                            viols.append(dict(assertion="atom-level-edges-are-the-bonds", tags=["explicit-link"],
                                              message=f"atom-level edges of the built molecule join residues {sorted(cap_bonded)}, the bonds written join {sorted(bonded)}" + info, case=case1, detail={}))
                        keys.append(json.dumps([seq, joined, intra, per_bond]))
    return dict(evals=evals, keys=keys, violations=viols, stats={"inputs_explicit": evals}, sample=dict(kind="explicit", inputs=evals))


def run_case(case):
    stats = {}
    if case["kind"] in ("explicit", "explicit1"):
        out = check_explicit(case)
        if case["kind"] == "explicit1":
            out["violations"] = [v for v in out["violations"] if all(v["case"].get(k) == case.get(k) for k in ("seq", "joined", "intra", "per_bond"))]
        return out
    if case["kind"] in ("fromitp", "fromitp1"):
        out = check_fromitp(case)
        if case["kind"] == "fromitp1":
            out["violations"] = [v for v in out["violations"] if v["case"]["layout"] == case["layout"] and v["case"]["seq"] == case["seq"]]
        return out
    if case["kind"] == "gate":
        v = check_gate(case["shape"], case)
        return dict(evals=1, keys=["gate:" + case["shape"]], violations=v, stats={"gate_shapes": 1})
    variant = case["variant"]
    spec = gp_cases.make_spec(variant)
    fn = check_proc if case["kind"] == "proc" else check_prog
    if case.get("single"):
        v, _ = fn(variant, spec, case["rg"], stats, case)
        return dict(evals=1, keys=[], violations=v, stats=stats)
    evals, keys, viols = 0, [], []
    for rg in gp_cases.graphs_for(variant, case["n"], case["tier"], starts=(1,)):
        case1 = {"kind": case["kind"], "variant": variant, "rg": rg, "single": True}
        v, nt = fn(variant, spec, rg, stats, case1)
        evals += 1
        if len(viols) < 20:
            viols += v
        if nt:
            keys.append(json.dumps([case["kind"], variant["links"], rg], sort_keys=True))
    stats[f"inputs_{case['kind']}"] = evals
    return dict(evals=evals, keys=keys, violations=viols, stats=stats,
                sample={"kind": case["kind"], "links": variant["links"], "n": case["n"], "inputs": evals})
