"""C19 - dsDNA completion adds the antiparallel Watson-Crick complement.

E3: every DNA sequence up to a length bound x {linear with 5'/3' names, linear
plain names, circular} x edge-label patterns, pushed through the real
complement_dsDNA and compared with an independent reference; plus involution and
rejection of unknown names at every position.
"""
import itertools
import networkx as nx

PID = "C19"
LEVEL = "exploration"
RULE = ("all strings over ACGT with 1<=n<=N (N=6 quick, 8 thorough) x modes {linear 5'/3', linear plain, "
        "circular (n>=2)} x edge-label patterns {none, every edge labelled distinctly} x resid offsets; each is run "
        "through complement_dsDNA and compared with the reference complement; non-trivial = n>=2; distinct = "
        "distinct (mode, sequence, labels, offset); plus every single-position substitution by an unknown name "
        "(n<=4) which must raise")
ASSUMPTIONS = ["input residue graphs have the shape polyply's readers produce: consecutive integer node keys in sequence order "
               "starting at 0 (sequence files) or at another number (.json files), resid = position + offset + 1",
               "the gen_params -dsdna .itp view is checked for all sequences with n<=3 (evidence key 'programs')"]
BUDGET = {"quick": 240, "thorough": 1500}

WC = {"A": "T", "T": "A", "G": "C", "C": "G"}
UNKNOWN = ["XX", "DU", "A", "DA53", "da"]


def cases(tier):
    nmax = 6 if tier == "quick" else 8
    for n in range(1, nmax + 1):
        seqs = ["".join(s) for s in itertools.product("ACGT", repeat=n)]
        # one case = a batch of sequences of equal length
        step = 64
        for i in range(0, len(seqs), step):
            yield {"n": n, "seqs": seqs[i:i + step], "tier": tier}
    # a few long strands (node keys beyond the small numbers: 255..258 residues, 300, 1000)
    for n in (255, 256, 257, 258, 300) + ((1000,) if tier == "thorough" else ()):
        yield {"n": n, "seqs": [("ACGTTGCA" * (n // 8 + 1))[:n], ("GGATC" * (n // 5 + 1))[:n]], "tier": tier}
    yield {"prog": True, "tier": tier}


def names_for(seq, mode):
    names = ["D" + c for c in seq]
    if mode == "ter" and len(seq) >= 2:
        names[0] += "5"
        names[-1] += "3"
    return names


def build(names, mode, labels, offset, koff=0, noresid=False):
    """node keys koff..koff+n-1 (sequence files give 0..n-1, .json files may number their nodes from 1 or anywhere)"""
    g = nx.Graph()
    n = len(names)
    for i, name in enumerate(names):
        if noresid:
            g.add_node(i + koff, resname=name)        # residue ids left to MetaMolecule (a .json file without resid fields)
        else:
            g.add_node(i + koff, resname=name, resid=i + 1 + offset)
    for i in range(n - 1):
        g.add_edge(i + koff, i + 1 + koff)
        if labels:
            g.edges[(i + koff, i + 1 + koff)]["lab"] = f"L{i}"
    if mode == "circ":
        g.add_edge(koff, n - 1 + koff)
        g.edges[(koff, n - 1 + koff)]["linktype"] = "circle"
    return g


def ref_complement_name(name):
    base, suffix = name[1], name[2:]
    suffix = {"5": "3", "3": "5", "": ""}[suffix]
    return "D" + WC[base] + suffix


def graph_digest(mm, nodes):
    nodes = list(nodes)
    nd = [(k, mm.nodes[k].get("resname"), mm.nodes[k].get("resid")) for k in nodes]
    ed = sorted((tuple(sorted((a, b))), tuple(sorted((k, v) for k, v in d.items())))
                for a, b, d in mm.edges(data=True) if a in nodes and b in nodes)
    return nd, ed


def check_one(seq, mode, labels, offset, koff=0, noresid=False):
    from polyply.src.meta_molecule import MetaMolecule
    from polyply.src.gen_dna import complement_dsDNA
    viols = []
    names = names_for(seq, mode)
    n = len(names)
    case = {"seq": seq, "mode": mode, "labels": labels, "offset": offset, "koff": koff, "noresid": noresid}

    def bad(assertion, msg, tags=()):
        viols.append(dict(assertion=assertion, tags=list(tags), message=msg, case=case, detail={}))

    g = build(names, mode, labels, offset, koff, noresid)
    mm = MetaMolecule(g, force_field=None, mol_name="dna")
    before = graph_digest(mm, range(koff, koff + n))
    try:
        complement_dsDNA(mm)
    except Exception as exc:  # noqa
        bad("complement-accepts-valid-strand", f"{type(exc).__name__}: {exc}", ["exc"])
        return viols
    if len(mm.nodes) != 2 * n:
        bad("two-n-residues", f"{len(mm.nodes)} residues for n={n}")
        return viols
    if graph_digest(mm, range(koff, koff + n)) != before:
        bad("original-strand-unchanged", f"first strand changed: {before} -> {graph_digest(mm, range(koff, koff + n))}")
    order = list(mm.nodes)
    if order[:n] != list(range(koff, koff + n)):
        bad("original-strand-unchanged", f"node order {order}")
    by_resid = {mm.nodes[k]["resid"]: k for k in mm.nodes}
    if sorted(by_resid) != list(range(1 + offset, 2 * n + 1 + offset)) or len(by_resid) != 2 * n:
        bad("new-resids-consecutive", f"resids {sorted(mm.nodes[k]['resid'] for k in mm.nodes)}")
        return viols
    # names: residue n+k complements residue n+1-k
    for k in range(1, n + 1):
        got = mm.nodes[by_resid[n + k + offset]]["resname"]
        want = ref_complement_name(names[n - k])
        if got != want:
            bad("antiparallel-complement", f"residue {n+k}: {got} expected {want} (complement of residue {n+1-k} {names[n-k]})")
    # edges of the new strand
    new_keys = {by_resid[n + k + offset] for k in range(1, n + 1)}
    exp_edges = {}
    old_attr = {tuple(sorted((a - koff, b - koff))): dict(d) for a, b, d in g.edges(data=True)}
    for k in range(1, n):
        # new edge (n+k, n+k+1) mirrors old edge between residues n+1-k and n-k (keys n-k, n-k-1)
        exp_edges[frozenset((n + k, n + k + 1))] = old_attr[(n - k - 1, n - k)]
    if mode == "circ" and n >= 3:
        exp_edges[frozenset((n + 1, 2 * n))] = old_attr[(0, n - 1)]
    got_edges = {}
    for a, b, d in mm.edges(data=True):
        if a in new_keys and b in new_keys:
            got_edges[frozenset((mm.nodes[a]["resid"] - offset, mm.nodes[b]["resid"] - offset))] = dict(d)
        elif (a in new_keys) != (b in new_keys):
            bad("strands-separate", f"edge {(a, b)} joins the two strands")
    if mode == "circ" and n == 2:
        # degenerate ring: the single edge is the closing edge
        exp_edges = {frozenset((3, 4)): old_attr[(0, 1)]}
    if set(got_edges) != set(exp_edges):
        bad("complement-connectivity", f"edges {sorted(map(sorted, got_edges))} expected {sorted(map(sorted, exp_edges))}")
    else:
        for e in exp_edges:
            if got_edges[e] != exp_edges[e]:
                bad("edge-labels-copied", f"edge {sorted(e)} attrs {got_edges[e]} expected {exp_edges[e]}")
    # involution: complement the new strand alone, once renumbered from 1 and once with the residue ids it carries
    if not viols:
        keys = [by_resid[n + k + offset] for k in range(1, n + 1)]
        for keep_ids in (False, True):
            g2 = nx.Graph()
            base = (n + offset) if keep_ids else 0
            for i, key in enumerate(keys):
                g2.add_node(i, resname=mm.nodes[key]["resname"], resid=i + 1 + base)
            for a, b, d in mm.edges(data=True):
                if a in new_keys and b in new_keys:
                    g2.add_edge(keys.index(a), keys.index(b), **d)
            mm2 = MetaMolecule(g2, force_field=None, mol_name="dna")
            tags = ["strand-keeps-its-resids"] if keep_ids else []
            try:
                complement_dsDNA(mm2)
                r2 = {mm2.nodes[k]["resid"]: mm2.nodes[k]["resname"] for k in mm2.nodes}
                back = [r2.get(base + n + k) for k in range(1, n + 1)]
                if back != names:
                    bad("involution", f"double complement {back} != {names}", tags)
                ne2 = sum(1 for a, b in mm2.edges if a >= n and b >= n)
                if ne2 != len(exp_edges):
                    bad("involution", f"complement of the added strand has {ne2} edges, the original strand {len(exp_edges)}", tags)
            except Exception as exc:  # noqa
                bad("involution", f"{type(exc).__name__}: {exc}", ["exc"] + tags)
    return viols


def check_reject(seq, mode, pos, unk):
    from polyply.src.meta_molecule import MetaMolecule
    from polyply.src.gen_dna import complement_dsDNA
    names = names_for(seq, mode)
    names[pos] = unk
    mm = MetaMolecule(build(names, mode, False, 0), force_field=None, mol_name="dna")
    try:
        complement_dsDNA(mm)
    except Exception:  # noqa  (IOError for inner residues, KeyError for the last one)
        return []
    return [dict(assertion="unknown-name-rejected", tags=[], case={"seq": seq, "mode": mode, "pos": pos, "unk": unk, "reject": True},
                 message=f"names {names} accepted, result {[mm.nodes[k]['resname'] for k in mm.nodes]}", detail={})]


def check_program(case):
    """gen_params -dsdna on files: the written .itp lists the strand and its complement"""
    from .. import ffmodel as F, gp_harness as H
    blocks = {nm: dict(nrexcl=1, atoms=[("BB", "D" + nm[1:], 0.0, 72.0, 1)], inter={})
              for nm in ["DA", "DT", "DG", "DC", "DA5", "DT5", "DG5", "DC5", "DA3", "DT3", "DG3", "DC3"]}
    link = dict(resname=list(blocks), inter={"bonds": [F.I(["BB", "+BB"], ["1", "0.3", "50"])]})
    ff_text = F.render_ff(dict(blocks=blocks, links=[link], mods={}))
    viols, evals, keys = [], 0, []
    for n in (1, 2, 3):
        for seq in itertools.product("ACGT", repeat=n):
            seq = "".join(seq)
            for mode in ("ter", "plain"):
                if mode == "ter" and n < 2:
                    continue
                names = names_for(seq, mode)
                evals += 1
                case1 = {"prog": True, "seq": seq, "mode": mode}
                with H.tempdir() as d:
                    r = H.run_gen_params(d, [("dna.ff", ff_text)], seq=[f"{nm}:1" for nm in names], dsdna=True)
                    if r["exc"] is not None:
                        from ..runner import crash_violation
                        viols.append(crash_violation(r["exc"], case1, assertion="gen_params-dsdna-accepts-valid-strand"))
                        continue
                    itp = H.read_itp_plain(r["itp_path"])
                got = [(a["resid"], a["resname"]) for a in itp["atoms"]]
                want = [(i + 1, nm) for i, nm in enumerate(names)] + [(n + k, ref_complement_name(names[n - k])) for k in range(1, n + 1)]
                if got != want:
                    viols.append(dict(assertion="dsdna-itp-lists-strand-and-complement", tags=[], message=f"-seq {names} -dsdna: residues {got} expected {want}", case=case1, detail={}))
                bonds = sorted(tuple(sorted(int(x) for x in tok[:2])) for tok, _ in itp["inter"].get("bonds", []))
                wantb = sorted([(i, i + 1) for i in range(1, n)] + [(n + i, n + i + 1) for i in range(1, n)])
                if bonds != wantb:
                    viols.append(dict(assertion="strands-separate", tags=["program"], message=f"-seq {names} -dsdna: bonds {bonds} expected {wantb}", case=case1, detail={}))
                if n >= 2:
                    keys.append(f"prog:{mode}:{seq}")
    # the strand given as a .json residue graph whose nodes are listed in another order than their ids (residue ids given):
    # the completed molecule does not depend on the listing order
    for seq in ("ACG", "GATC", "TTGCA"):
        n = len(seq)
        for mode in ("ter", "plain"):
            names = names_for(seq, mode)
            rg = dict(n=n, edges=[[i, i + 1] for i in range(n - 1)], resids=[1 + i for i in range(n)], resnames=names)
            outs = {}
            for oname, perm in (("ascending", list(range(n))), ("descending", list(range(n))[::-1]), ("rotated", list(range(1, n)) + [0]),
                                ("interleaved", list(range(0, n, 2)) + list(range(1, n, 2)))):
                evals += 1
                case1 = {"prog": True, "seq": seq, "mode": mode, "listing": oname}
                with H.tempdir() as d:
                    r = H.run_gen_params(d, [("dna.ff", ff_text)], graph=H.build_resgraph(rg, insertion=perm), dsdna=True)
                    if r["exc"] is not None:
                        from ..runner import crash_violation
                        viols.append(crash_violation(r["exc"], case1, assertion="gen_params-dsdna-accepts-valid-strand", tags=["json-listing-order"]))
                        continue
                    itp = H.read_itp_plain(r["itp_path"])
                outs[oname] = ([(a["resid"], a["resname"]) for a in itp["atoms"]],
                               sorted(tuple(sorted(int(x) for x in tok[:2])) for tok, _ in itp["inter"].get("bonds", [])))
                want = [(i + 1, nm) for i, nm in enumerate(names)] + [(n + k, ref_complement_name(names[n - k])) for k in range(1, n + 1)]
                if outs[oname][0] != want and len(viols) < 20:
                    viols.append(dict(assertion="dsdna-itp-lists-strand-and-complement", tags=["json-listing-order"],
                                      message=f".json strand {names} with its nodes listed {oname}, -dsdna: residues {outs[oname][0]} expected {want}", case=case1, detail={}))
            keys.append(f"prog-json:{mode}:{seq}")
    return dict(evals=evals, keys=keys, violations=viols, stats={"programs": evals}, sample={"program_level": True, "inputs": evals})


def run_case(case):
    if case.get("prog"):
        if "seq" in case:
            out = check_program(case)
            out["violations"] = [v for v in out["violations"] if v["case"].get("seq") == case["seq"] and v["case"].get("mode") == case["mode"]
                                 and v["case"].get("listing") == case.get("listing")]
            return out
        return check_program(case)
    if "seqs" not in case:  # replay of a single sub-case
        if case.get("reject"):
            v = check_reject(case["seq"], case["mode"], case["pos"], case["unk"])
        else:
            v = check_one(case["seq"], case["mode"], case["labels"], case["offset"], case.get("koff", 0), case.get("noresid", False))
        return dict(evals=1, keys=[], violations=v, stats={})
    evals, keys, viols = 0, [], []
    offsets = [0, 4]
    nrej = 0
    for seq in case["seqs"]:
        n = len(seq)
        for mode in ("ter", "plain", "circ"):
            if mode == "circ" and n < 2:
                continue
            if mode == "ter" and n < 2:
                continue
            if n <= 4:
                # residue ids not given in the input: MetaMolecule numbers the residues itself
                viols += check_one(seq, mode, False, 0, 0, noresid=True)
                evals += 1
                if n >= 2:
                    keys.append(f"{mode}:{seq}:noresid")
            for labels in (False, True):
                for off in offsets:
                    if off and case["tier"] == "quick" and n > 4:
                        continue
                    for koff in ((0, 1) if n <= 4 or case["tier"] == "thorough" else (0,)) + ((7,) if n <= 3 else ()):
                        viols += check_one(seq, mode, labels, off, koff)
                        evals += 1
                        if n >= 2:
                            keys.append(f"{mode}:{seq}:{int(labels)}:{off}:{koff}")
            if n <= 4:
                for pos in range(n):
                    for unk in UNKNOWN[:2] if n > 2 else UNKNOWN:
                        viols += check_reject(seq, mode, pos, unk)
                        evals += 1
                        nrej += 1
    sample = {"seq": case["seqs"][0], "mode": "ter", "names": names_for(case["seqs"][0], "ter"),
              "expected_new_strand": [ref_complement_name(x) for x in reversed(names_for(case["seqs"][0], "ter"))]}
    return dict(evals=evals, keys=keys, violations=viols, stats={"rejection_cases": nrej}, sample=sample)
