"""C18 - build options select exactly the molecules and residues they name (E3 + E1 for ligands)."""
import copy, itertools, json
import numpy as np
from .. import gc_harness as G, gc_oracle as O, gp_harness as H
from ..explore_choice import explore, Chooser
from ..runner import crash_violation

PID = "C18"
LEVEL = "exploration"
RULE = ("topology with two molecule names interleaved ([A x1, B x2, A x2]: indices of A are 0,3,4) and residues S S B S / W; build "
        "files: every [ molecule ] index range 0<=a<=b<=6 for each name x every residue directive range 0<=s<=t<=6 for each residue "
        "name (sphere restraint and rw_restriction), plus two overlapping / adjacent blocks; [ distance_restraints ] and "
        "[ persistence_length ] under every [ molecule ] range 0<=a<=b<=5 (reached molecule indices == named indices in range); -start strings: every combination of "
        "present / omitted molname, #idx, resname, #resid; -lig: every such combination for host and ligand, executed through the "
        "real gen_coords; -split: every set partition of a 2- and 3-atom residue into named parts in topologies that also contain "
        "residues not being split. Oracle: the set of (molecule index, residue) carrying a tag equals the half-open reference "
        "selection and all other node attribute dicts are unchanged; split keeps the atom multiset, puts each atom in the residue "
        "that names it and leaves other residues alone; a ligand ends one step (minimum image) from its host residue, in its own "
        "molecule, with the molecule list unchanged. distinct_nontrivial = inputs selecting a proper non-empty subset")
ASSUMPTIONS = ["residue sizes fixed through [ volumes ] (ligand placement needs a size for the ligand residue)",
               "specifications that name no molecule at all are outside the documented format for -start and not generated"]
BUDGET = {"quick": 420, "thorough": 2400}

SYS = dict(types=["CH4", "W"], molecules=[("CH4", 1), ("W", 2), ("CH4", 2)], box=[5.0, 5.0, 5.0],
           grid=[[1.0, 1.0, 1.0], [3.0, 3.0, 3.0], [1.0, 3.0, 2.0], [3.0, 1.0, 4.0], [4.0, 4.0, 1.0], [2.0, 2.0, 4.0], [4.5, 2.5, 2.5]])
# CH4 residues: S1 B2 S3 B4 ; W residue W1
NMOL = 5


def read_top(d, sysd=SYS):
    from polyply.src.topology import Topology
    (d / "s.top").write_text(G.render_top(sysd))
    top = Topology.from_gmx_topfile(d / "s.top", "v")
    top.preprocess()
    return top


def snapshot(top):
    out = {}
    for mi, mm in enumerate(top.molecules):
        for node in mm.nodes:
            out[(mi, node)] = {k: (sorted(v.nodes) if k == "graph" else copy.deepcopy(v)) for k, v in mm.nodes[node].items()}
    return out


def cases(tier):
    yield dict(kind="tags", directive="sphere", tier=tier)
    yield dict(kind="tags", directive="rw", tier=tier)
    yield dict(kind="tags-multi", tier=tier)
    yield dict(kind="pairdir", tier=tier)
    yield dict(kind="tags-dup", tier=tier)
    yield dict(kind="start", tier=tier)
    for i in range(4):
        yield dict(kind="lig", part=i, tier=tier)
    yield dict(kind="lig-two", tier=tier)
    yield dict(kind="lig-unnamed", tier=tier)
    yield dict(kind="lig-mismatch", tier=tier)
    yield dict(kind="lig-multires", tier=tier)
    yield dict(kind="lig-scattered", tier=tier)
    yield dict(kind="lig-sizes", tier=tier)
    yield dict(kind="split", tier=tier)
    yield dict(kind="split-run", tier=tier)
    yield dict(kind="split-reuse", tier=tier)
    yield dict(kind="split-run", tier=tier, with_coords=True)


# ------------------------------------------------------------------ tags
def check_tags(case):
    from polyply.src.build_file_parser import read_build_file
    viols, evals, keys = [], 0, []
    names = {"CH4": [0, 3, 4], "W": [1, 2]}
    resinfo = {"CH4": [("S", 1), ("B", 2), ("S", 3), ("B", 4)], "W": [("W", 1)]}
    with H.tempdir() as d:
        base = read_top(d)
        snap0 = snapshot(base)
        for molname in ("CH4", "W"):
            for a, b in itertools.combinations_with_replacement(range(0, 7), 2):
                for resname in ("S", "B", "W"):
                    for s, t in itertools.combinations_with_replacement(range(0, 7), 2):
                        if case["tier"] == "quick" and (a + b + s + t) % 3 and not (a == 0 and b == 6):
                            continue
                        if case["directive"] == "sphere":
                            text = f"[ molecule ]\n{molname} {a} {b}\n[ sphere ]\n{resname} {s} {t} in 1.0 2.0 3.0 4.5\n"
                            key = "restraints"
                        else:
                            text = f"[ molecule ]\n{molname} {a} {b}\n[ rw_restriction ]\n{resname} {s} {t} 1.0 0.0 0.0 60.0\n"
                            key = "rw_options"
                        top = copy.deepcopy(base)
                        evals += 1
                        case1 = dict(kind="tags1", text=text, key=key, molname=molname, a=a, b=b, resname=resname, s=s, t=t)
                        try:
                            read_build_file(text.splitlines(), top, top.molecules)
                        except Exception as exc:  # noqa
                            viols.append(crash_violation(exc, case1, assertion="build-file-readable"))
                            continue
                        want = {(mi, r) for mi in names[molname] if a <= mi < b
                                for r, (rn, resid) in enumerate(resinfo[molname]) if rn == resname and s <= resid < t}
                        snap = snapshot(top)
                        got = {k for k, v in snap.items() if key in v}
                        if got != want and len(viols) < 20:
                            viols.append(dict(assertion="tag-selects-exactly-named-range", tags=[f"directive:{case['directive']}"],
                                              message=f"{text!r}: tagged {sorted(got)} expected {sorted(want)}", case=case1, detail={}))
                        for k, v in snap.items():
                            ref = dict(snap0[k])
                            if k in want:
                                v = {kk: vv for kk, vv in v.items() if kk != key}
                            if v != ref and len(viols) < 20:
                                viols.append(dict(assertion="other-nodes-untouched", tags=[], message=f"{text!r}: node {k} changed {ref} -> {v}", case=case1, detail={}))
                        if want and len(want) < 12:
                            keys.append(f"{case['directive']}:{molname}:{a}:{b}:{resname}:{s}:{t}")
    return viols, evals, keys


def check_pair_directives(case):
    """[ distance_restraints ] and [ persistence_length ] inside a [ molecule ] block: they must reach exactly the molecules with
    the block's name and an index in the block's range"""
    from polyply.src.build_file_parser import read_build_file
    viols, evals, keys = [], 0, []
    names = {"CH4": [0, 3, 4], "W": [1, 2]}
    with H.tempdir() as d:
        base = read_top(d)
        for a, b in itertools.combinations_with_replacement(range(0, 6), 2):   # indices past the last molecule name nothing: out of scope
            for directive in ("dist", "pers"):
                body = "[ distance_restraints ]\n0 3 1.5 0.3\n" if directive == "dist" else "[ persistence_length ]\nWCM 1.0 0 3\n"
                text = f"[ molecule ]\nCH4 {a} {b}\n" + body
                top = copy.deepcopy(base)
                evals += 1
                case1 = dict(kind="pairdir1", text=text)
                want = sorted(mi for mi in names["CH4"] if a <= mi < b)
                tags = ["range-covers-molecules-of-another-name"] if any(a <= mi < b for mi in names["W"]) else []
                try:
                    read_build_file(text.splitlines(), top, top.molecules)
                except Exception as exc:  # noqa
                    viols.append(crash_violation(exc, case1, assertion="build-file-readable", tags=tags))
                    continue
                if directive == "dist":
                    got = sorted(int(idx) for (nm, idx), v in top.distance_restraints.items() if v)
                else:
                    got = sorted(int(i) for spec in top.persistences for i in spec.mol_idxs)
                if got != want and len(viols) < 20:
                    viols.append(dict(assertion="tag-selects-exactly-named-range", tags=tags + [f"directive:{directive}"],
                                      message=f"{text!r}: reaches molecules {got}, expected {want}", case=case1, detail={}))
                if want:
                    keys.append(f"pairdir:{directive}:{a}:{b}")
    return viols, evals, keys


def check_tags_dup(case):
    """residue directives on a molecule whose residue ids restart (S1 S2 B1 B2): the residue name decides"""
    from polyply.src.build_file_parser import read_build_file
    viols, evals, keys = [], 0, []
    sysd = dict(types=["DUPB", "W"], molecules=[("DUPB", 1), ("W", 1), ("DUPB", 1)], box=[5.0, 5.0, 5.0])
    resinfo = [("S", 1), ("S", 2), ("B", 1), ("B", 2)]
    with H.tempdir() as d:
        base = read_top(d, sysd)
        snap0 = snapshot(base)
        for a, b in ((0, 3), (0, 1), (2, 3)):
            for resname in ("S", "B"):
                for s_, t in itertools.combinations_with_replacement(range(0, 4), 2):
                    for directive in ("sphere", "rw"):
                        if directive == "sphere":
                            text = f"[ molecule ]\nDUPB {a} {b}\n[ sphere ]\n{resname} {s_} {t} in 1.0 2.0 3.0 4.5\n"
                            key = "restraints"
                        else:
                            text = f"[ molecule ]\nDUPB {a} {b}\n[ rw_restriction ]\n{resname} {s_} {t} 1.0 0.0 0.0 60.0\n"
                            key = "rw_options"
                        top = copy.deepcopy(base)
                        evals += 1
                        case1 = dict(kind="tagsdup1", text=text)
                        try:
                            read_build_file(text.splitlines(), top, top.molecules)
                        except Exception as exc:  # noqa
                            viols.append(crash_violation(exc, case1, assertion="build-file-readable", tags=["restarting-resids"]))
                            continue
                        want = {(mi, r) for mi in (0, 2) if a <= mi < b for r, (rn, resid) in enumerate(resinfo) if rn == resname and s_ <= resid < t}
                        snap = snapshot(top)
                        got = {k for k, v in snap.items() if key in v}
                        if got != want and len(viols) < 20:
                            viols.append(dict(assertion="tag-selects-exactly-named-range", tags=["restarting-resids", f"directive:{directive}"],
                                              message=f"{text!r}: tagged {sorted(got)} expected {sorted(want)}", case=case1, detail={}))
                        for k, v in snap.items():
                            if k in want:
                                v = {kk: vv for kk, vv in v.items() if kk != key}
                            if v != snap0[k] and len(viols) < 20:
                                viols.append(dict(assertion="other-nodes-untouched", tags=["restarting-resids"], message=f"{text!r}: node {k} changed", case=case1, detail={}))
                        if want:
                            keys.append(f"dup:{directive}:{a}:{b}:{resname}:{s_}:{t}")
    return viols, evals, keys


def check_tags_multi(case):
    from polyply.src.build_file_parser import read_build_file
    viols, evals, keys = [], 0, []
    with H.tempdir() as d:
        base = read_top(d)
        for (a1, b1), (a2, b2) in itertools.product([(0, 4), (3, 5), (0, 1)], [(3, 5), (4, 5), (0, 4)]):
          for two_files in (False, True):
            part1 = f"[ molecule ]\nCH4 {a1} {b1}\n[ sphere ]\nS 1 4 in 1.0 2.0 3.0 4.5\n"
            part2 = f"[ molecule ]\nCH4 {a2} {b2}\n[ rectangle ]\nS 3 4 out 1.0 1.0 1.0 0.5 0.5 0.5\n"
            text = part1 + part2
            top = copy.deepcopy(base)
            evals += 1
            case1 = dict(kind="tagsm1", text=text, two_files=two_files)
            try:
                if two_files:      # the two blocks in two build files read one after the other (-b a.bld b.bld)
                    read_build_file(part1.splitlines(), top, top.molecules)
                    read_build_file(part2.splitlines(), top, top.molecules)
                else:
                    read_build_file(text.splitlines(), top, top.molecules)
            except Exception as exc:  # noqa
                viols.append(crash_violation(exc, case1, assertion="build-file-readable"))
                continue
            for mi in (0, 3, 4):
                for r, resid in ((0, 1), (2, 3)):
                    want = []
                    if a1 <= mi < b1:
                        want.append("sphere")
                    if a2 <= mi < b2 and resid == 3:
                        want.append("rectangle")
                    got = [x[-1] for x in top.molecules[mi].nodes[r].get("restraints", [])]
                    if sorted(got) != sorted(want):
                        viols.append(dict(assertion="tag-selects-exactly-named-range", tags=["multi-block"],
                                          message=f"{text!r}: molecule {mi} residue {resid} has {got} expected {want}", case=case1, detail={}))
            keys.append(f"multi:{a1}:{b1}:{a2}:{b2}:{two_files}")
        # several directive kinds inside one [ molecule ] block, in both orders, for both molecule names
        kinds = {"sphere": ("[ sphere ]\n{rn} {s} {t} in 1.0 2.0 3.0 4.5\n", "restraints"),
                 "rw": ("[ rw_restriction ]\n{rn} {s} {t} 1.0 0.0 0.0 60.0\n", "rw_options"),
                 "cylinder": ("[ cylinder ]\n{rn} {s} {t} out 1.0 2.0 3.0 0.5 0.7\n", "restraints")}
        names = {"CH4": [0, 3, 4], "W": [1, 2]}
        resinfo = {"CH4": [("S", 1), ("B", 2), ("S", 3), ("B", 4)], "W": [("W", 1)]}
        for molname, (a, b) in (("CH4", (0, 4)), ("CH4", (3, 5)), ("W", (1, 3))):
            for k1, k2 in itertools.product(kinds, repeat=2):     # also the same kind twice (for different residue names)
                rn1, rn2 = ("S", "B") if molname == "CH4" else ("W", "W")
                text = f"[ molecule ]\n{molname} {a} {b}\n" + kinds[k1][0].format(rn=rn1, s=1, t=4) + kinds[k2][0].format(rn=rn2, s=2, t=5)
                top = copy.deepcopy(base)
                evals += 1
                case1 = dict(kind="tagsm1", text=text)
                try:
                    read_build_file(text.splitlines(), top, top.molecules)
                except Exception as exc:  # noqa
                    viols.append(crash_violation(exc, case1, assertion="build-file-readable"))
                    continue
                for mi, mm in enumerate(top.molecules):
                    mname = "CH4" if mi in names["CH4"] else "W"
                    for r, (rn, resid) in enumerate(resinfo[mname]):
                        want = {"restraints": 0, "rw_options": 0}
                        if mname == molname and a <= mi < b:
                            if rn == rn1 and 1 <= resid < 4:
                                want[kinds[k1][1]] += 1
                            if rn == rn2 and 2 <= resid < 5:
                                want[kinds[k2][1]] += 1
                        got = {k: len(mm.nodes[r].get(k, [])) for k in want}
                        if got != want:
                            viols.append(dict(assertion="tag-selects-exactly-named-range",
                                              tags=["several-directive-kinds-in-one-block"] + (["same-kind-twice"] if k1 == k2 else []),
                                              message=f"{text!r}: molecule {mi} residue {resid}{rn} has {got} expected {want}", case=case1, detail={}))
                keys.append(f"mixed:{molname}:{k1}:{k2}")
    return viols, evals, keys


# ------------------------------------------------------------------ -start
def spec_strings(molname, idx, resname, resid):
    """every combination of present / omitted fields"""
    for use in itertools.product([0, 1], repeat=4):
        s = ""
        if use[0]:
            s += molname
        if use[1]:
            s += f"#{idx}"
        if use[2] or use[3]:
            s += "-"
            if use[2]:
                s += resname
            if use[3]:
                s += f"#{resid}"
        yield use, s


def check_start(case):
    from polyply.src.gen_coords import find_starting_node_from_spec
    viols, evals, keys = [], 0, []
    sys_dup = dict(SYS, types=["DUPB", "W"], molecules=[("DUPB", 1), ("W", 2), ("DUPB", 2)])
    # passes: the interleaved topology; the same with residue ids counted from 0 (as after -split, or in a 0-based itp);
    # a main molecule whose residue ids restart (S1 S2 B1 B2: name and id together identify the residue)
    for label, sysd, main, main_res in (("plain", SYS, "CH4", [("S", 1), ("B", 2), ("S", 3), ("B", 4)]),
                                        ("zero", dict(SYS, resid_from_zero=True), "CH4", [("S", 0), ("B", 1), ("S", 2), ("B", 3)]),
                                        ("dup", sys_dup, "DUPB", [("S", 1), ("S", 2), ("B", 1), ("B", 2)]),
                                        # molecule names that contain each other: CH is a one-residue molecule, CH4 the chain
                                        ("nested-names", dict(SYS, types=["CH4", "CH"], molecules=[("CH4", 1), ("CH", 2), ("CH4", 2)], typedefs={"CH": G.TYPES["W"]}),
                                         "CH4", [("S", 1), ("B", 2), ("S", 3), ("B", 4)])):
        other = "CH" if label == "nested-names" else "W"
        names = {main: [0, 3, 4], other: [1, 2]}
        resinfo = {main: main_res, other: [("W", 0 if label == "zero" else 1)]}
        with H.tempdir() as d:
            base = read_top(d, sysd)
            for molname, idx in ((main, 0), (main, 3), (main, 4), (other, 2)):
                for r, (resname, resid) in enumerate(resinfo[molname]):
                    for use, spec in spec_strings(molname, idx, resname, resid):
                        if not use[0] and not use[1]:
                            continue       # names no molecule at all
                        top = copy.deepcopy(base)
                        evals += 1
                        case1 = dict(kind="start1", spec=spec, label=label)
                        try:
                            got = find_starting_node_from_spec(top, [spec])
                        except Exception as exc:  # noqa
                            viols.append(crash_violation(exc, case1, assertion="start-spec-accepted", tags=[f"pass:{label}"]))
                            continue
                        mols = [idx] if use[1] else names[molname]
                        want = {mi: None for mi in range(NMOL)}
                        for mi in mols:
                            mname = main if mi in names[main] else other
                            cands = [rr for rr, (rn, rid) in enumerate(resinfo[mname]) if (not use[2] or rn == resname) and (not use[3] or rid == resid)]
                            want[mi] = cands[0] if cands else None
                        if got != want and len(viols) < 20:
                            viols.append(dict(assertion="start-selects-as-written", tags=[f"pass:{label}"], message=f"-start {spec!r} ({label}): {got} expected {want}", case=case1, detail={}))
                        keys.append(f"start:{label}:" + spec)
    return viols, evals, keys


# ------------------------------------------------------------------ -lig (through gen_coords)
def check_lig(case):
    viols, evals, keys = [], 0, []
    sysd = dict(SYS, kwargs=dict(nrewind=2, maxiter=5))
    combos = []
    for huse, hspec in spec_strings("CH4", 3, "B", 2):
        if not (huse[2] or huse[3]):
            continue           # host residue must be named somehow, otherwise every residue of the molecule gets a ligand
        for luse, lspec in spec_strings("W", 1, "W", 1):
            if not (luse[0] or luse[1]):
                continue
            combos.append((huse, hspec, luse, lspec))
    novol = [(c, True) for c in combos[-2:]] if case["part"] == 0 else []
    # residue ids counted from 0 (as after -split): host residue S with id 0; the other S residue has id 2
    zero_combos = []
    if case["part"] == 1:
        for huse, hspec in spec_strings("CH4", 3, "S", 0):
            if huse[3]:
                zero_combos.append(((huse, hspec, (1, 1, 0, 0), "W#1"), "zero"))
    for n, ((huse, hspec, luse, lspec), no_volumes) in enumerate([(c, False) for c in combos] + novol + zero_combos):
        zero = no_volumes == "zero"
        no_volumes = no_volumes is True
        if n % 4 != case["part"] and not no_volumes and not zero:
            continue
        # reference selection
        names = {"CH4": [0, 3, 4], "W": [1, 2]}
        hmols = [3] if huse[1] else (names["CH4"] if huse[0] else list(range(NMOL)))
        hosts = []
        resinfo = {"CH4": [("S", 1), ("B", 2), ("S", 3), ("B", 4)], "W": [("W", 1)]}
        hname, hresid = ("S", 0) if zero else ("B", 2)
        if zero:
            resinfo = {k: [(rn, rid - 1) for rn, rid in v] for k, v in resinfo.items()}
        for mi in hmols:
            mname = "CH4" if mi in names["CH4"] else "W"
            for rr, (rn, rid) in enumerate(resinfo[mname]):
                if (not huse[2] or rn == hname) and (not huse[3] or rid == hresid):
                    hosts.append((mi, rr))
        ligs = [1] if luse[1] else names["W"]
        if len(hosts) > len(ligs):
            continue            # more hosts than ligand molecules: outside the format (one ligand molecule per host)
        s2 = json.loads(json.dumps(sysd))
        s2["kwargs"]["ligands"] = [[hspec, lspec]]
        if zero:
            s2["resid_from_zero"] = True
        if no_volumes:
            s2["no_volumes"] = True     # sizes come from polyply's own template volumes (0.47 nm for every single bead here)
        evals += 1
        case1 = dict(kind="lig1", host=hspec, lig=lspec, no_volumes=no_volumes, zero=zero)
        res = G.run_gen_coords(s2, Chooser([]))
        if res["exc"] is not None:
            viols.append(crash_violation(res["exc"], case1, assertion="ligand-spec-accepted",
                                         tags=["ligand-without-user-volumes"] if no_volumes else []))
            continue
        want_atoms = G.expand_atoms(s2)
        atoms = res["gro"][0] if res["gro"] else []
        if [(a[0] + (1 if zero else 0), a[1], a[2]) for a in atoms] != [(w[2], w[3], w[4]) for w in want_atoms]:
            viols.append(dict(assertion="molecule-list-unchanged", tags=[], message=f"-lig {hspec}:{lspec}: output atoms {[(a[0], a[1], a[2]) for a in atoms]}", case=case1, detail={}))
            continue
        # positions per (mol, residue): single-atom residues, so atom position == residue position
        pos, k = {}, 0
        for (mi, name, resid, resname, an), a in zip(want_atoms, atoms):
            pos[(mi, resid - 1)] = np.array(a[3])
        box = np.array(s2["box"])
        vols = dict(G.DEFAULT_VOLUMES) if not no_volumes else {k: 0.47 for k in G.DEFAULT_VOLUMES}
        for (hm, hr), lm in zip(hosts, ligs):
            hsize = vols[resinfo["CH4" if hm in names["CH4"] else "W"][hr][0]]
            step = (hsize + vols["W"]) / 2.0
            dist = np.linalg.norm(O.min_image(pos[(hm, hr)] - pos[(lm, 0)], box))
            if not abs(dist - step) <= 2e-3:
                viols.append(dict(assertion="ligand-one-step-from-host", tags=[],
                                  message=f"-lig {hspec}:{lspec}: ligand molecule {lm} is {dist:.4f} nm from host residue {(hm, hr)}, step {step}", case=case1, detail={}))
        keys.append(f"lig:{hspec}:{lspec}")
    return viols, evals, keys


def check_lig_unnamed(case):
    """-lig whose host part names neither a molecule nor an index (every molecule is eligible), with the host molecules last in
    the topology and as many ligand molecules as hosts"""
    viols, evals, keys = [], 0, []
    sysd = dict(SYS, molecules=[("W", 2), ("CH4", 2)], kwargs=dict(nrewind=2, maxiter=5))
    resinfo = [("S", 1), ("B", 2), ("S", 3), ("B", 4)]
    for hspec, sel in (("-B#2", lambda rn, rid: rn == "B" and rid == 2), ("-#3", lambda rn, rid: rid == 3), ("-S#1", lambda rn, rid: rn == "S" and rid == 1),
                       ("-#4", lambda rn, rid: rid == 4)):
        for lspec in ("W", "W#0"):
            hosts = [(mi, r) for mi in (2, 3) for r, (rn, rid) in enumerate(resinfo) if sel(rn, rid)]
            ligs = [0, 1] if lspec == "W" else [0]
            if lspec == "W#0":
                continue_ok = len(hosts) <= 1
                if not continue_ok:
                    continue
            s2 = json.loads(json.dumps(sysd))
            s2["kwargs"]["ligands"] = [[hspec, lspec]]
            evals += 1
            case1 = dict(kind="ligu1", host=hspec, lig=lspec)
            res = G.run_gen_coords(s2, Chooser([]))
            if res["exc"] is not None:
                viols.append(crash_violation(res["exc"], case1, assertion="ligand-spec-accepted", tags=["host-molecule-unnamed"]))
                continue
            want_atoms = G.expand_atoms(s2)
            atoms = res["gro"][0] if res["gro"] else []
            if [(x[0], x[1], x[2]) for x in atoms] != [(w[2], w[3], w[4]) for w in want_atoms]:
                viols.append(dict(assertion="molecule-list-unchanged", tags=["host-molecule-unnamed"], message=f"-lig {hspec}:{lspec}: output atoms differ", case=case1, detail={}))
                continue
            pos = {}
            for (mi, name, resid, resname, an), x in zip(want_atoms, atoms):
                pos[(mi, resid - 1)] = np.array(x[3])
            box = np.array(s2["box"])
            for (hm, hr), lm in zip(hosts, ligs):
                step = (G.DEFAULT_VOLUMES[resinfo[hr][0]] + G.DEFAULT_VOLUMES["W"]) / 2.0
                dist = np.linalg.norm(O.min_image(pos[(hm, hr)] - pos[(lm, 0)], box))
                if not abs(dist - step) <= 2e-3 and len(viols) < 20:
                    viols.append(dict(assertion="ligand-one-step-from-host", tags=["host-molecule-unnamed"],
                                      message=f"-lig {hspec}:{lspec}: ligand molecule {lm} is {dist:.4f} nm from host residue {(hm, hr)}, step {step}", case=case1, detail={}))
            keys.append(f"ligu:{hspec}:{lspec}")
    return viols, evals, keys


def check_lig_multires(case):
    """a ligand molecule with two residues (both selected by the ligand part): every ligand residue ends one step from the host residue"""
    viols, evals, keys = [], 0, []
    sysd = dict(SYS, types=["CH4", "CH2"], molecules=[("CH4", 1), ("CH2", 2)], kwargs=dict(nrewind=2, maxiter=5))
    for hspec, hr, lspec, lm, lres in (("CH4#0-B#2", 1, "CH2#1", 1, [0, 1]), ("CH4#0-S#3", 2, "CH2#2-S", 2, [0, 1]), ("CH4#0-B#4", 3, "CH2#1-S#2", 1, [1]),
                                       ("CH4-B#2", 1, "#2", 2, [0, 1])):
        s2 = json.loads(json.dumps(sysd))
        s2["kwargs"]["ligands"] = [[hspec, lspec]]
        evals += 1
        case1 = dict(kind="ligmr1", host=hspec, lig=lspec)
        res = G.run_gen_coords(s2, Chooser([]))
        if res["exc"] is not None:
            viols.append(crash_violation(res["exc"], case1, assertion="ligand-spec-accepted", tags=["multi-residue-ligand"]))
            continue
        want_atoms = G.expand_atoms(s2)
        atoms = res["gro"][0] if res["gro"] else []
        if [(x[0], x[1], x[2]) for x in atoms] != [(w[2], w[3], w[4]) for w in want_atoms]:
            viols.append(dict(assertion="molecule-list-unchanged", tags=["multi-residue-ligand"], message=f"-lig {hspec}:{lspec}: output atoms differ", case=case1, detail={}))
            continue
        pos = {}
        for (mi, name, resid, resname, an), x in zip(want_atoms, atoms):
            pos[(mi, resid - 1)] = np.array(x[3])
        box = np.array(s2["box"])
        hsize = G.DEFAULT_VOLUMES[["S", "B", "S", "B"][hr]]
        for lr in lres:
            step = (hsize + G.DEFAULT_VOLUMES["S"]) / 2.0
            dist = np.linalg.norm(O.min_image(pos[(0, hr)] - pos[(lm, lr)], box))
            if not abs(dist - step) <= 2e-3 and len(viols) < 20:
                viols.append(dict(assertion="ligand-one-step-from-host", tags=["multi-residue-ligand"],
                                  message=f"-lig {hspec}:{lspec}: residue {lr} of ligand molecule {lm} is {dist:.4f} nm from host residue {(0, hr)}, step {step}", case=case1, detail={}))
        keys.append(f"ligmr:{hspec}:{lspec}")
    return viols, evals, keys


def check_lig_mismatch(case):
    """-lig parts whose molecule name and molecule index contradict each other name no molecule: the run must refuse them
    (or at least leave every molecule built as itself), on the host side and on the ligand side alike"""
    viols, evals, keys = [], 0, []
    sysd = dict(SYS, kwargs=dict(nrewind=2, maxiter=5))
    for side, hspec, lspec in (("ligand", "CH4#3-B#2", "W#4"), ("ligand", "CH4#0-S#1", "W#3"), ("host", "W#3-B#2", "W#1"), ("host", "CH4#1-W#1", "W#2"),
                               ("ligand", "CH4#3-B#2", "CH4#1")):
        s2 = json.loads(json.dumps(sysd))
        s2["kwargs"]["ligands"] = [[hspec, lspec]]
        evals += 1
        case1 = dict(kind="ligm1", host=hspec, lig=lspec)
        res = G.run_gen_coords(s2, Chooser([]))
        keys.append(f"ligm:{hspec}:{lspec}")
        if res["exc"] is not None:
            continue            # refused
        # accepted: then every CH4 molecule must still be a chain (consecutive residues one step apart)
        want_atoms = G.expand_atoms(s2)
        atoms = res["gro"][0] if res["gro"] else []
        pos = {}
        for (mi, name, resid, resname, an), x in zip(want_atoms, atoms):
            pos[(mi, resid - 1)] = np.array(x[3])
        box = np.array(s2["box"])
        for mi in (0, 3, 4):
            for r in range(3):
                dist = np.linalg.norm(O.min_image(pos[(mi, r)] - pos[(mi, r + 1)], box))
                if not abs(dist - 0.75) <= 2e-3 and len(viols) < 20:
                    viols.append(dict(assertion="contradictory-ligand-spec-selects-nothing", tags=[f"side:{side}"],
                                      message=f"-lig {hspec}:{lspec} (molecule name and index disagree on the {side} side) was accepted and molecule {mi} is no longer "
                                              f"built as a chain: residues {r},{r + 1} are {dist:.3f} nm apart", case=case1, detail={}))
                    break
    return viols, evals, keys


def check_lig_two(case):
    """two -lig options at once: each ligand molecule ends one step from the host residue its own option names"""
    viols, evals, keys = [], 0, []
    sysd = dict(SYS, kwargs=dict(nrewind=2, maxiter=5))
    resinfo = {"CH4": [("S", 1), ("B", 2), ("S", 3), ("B", 4)]}
    # (host molecule, host residue index, host spec, ligand molecule, ligand spec)
    opts = [(3, 1, "CH4#3-B#2", 1, "W#1"), (3, 2, "CH4#3-S#3", 2, "W#2"), (0, 0, "CH4#0-S#1", 1, "W#1"), (4, 3, "#4-B#4", 2, "W#2"),
            (3, 1, "CH4#3-B#2", 2, "#2"), (0, 3, "CH4#0-B#4", 2, "W#2")]
    for (a, b) in itertools.permutations(range(len(opts)), 2):
        (hm1, hr1, hs1, lm1, ls1), (hm2, hr2, hs2, lm2, ls2) = opts[a], opts[b]
        if lm1 == lm2:
            continue          # one ligand molecule cannot sit at two hosts
        s2 = json.loads(json.dumps(sysd))
        s2["kwargs"]["ligands"] = [[hs1, ls1], [hs2, ls2]]
        evals += 1
        case1 = dict(kind="lig2", ligands=s2["kwargs"]["ligands"])
        res = G.run_gen_coords(s2, Chooser([]))
        if res["exc"] is not None:
            viols.append(crash_violation(res["exc"], case1, assertion="ligand-spec-accepted", tags=["two-ligand-options"]))
            continue
        want_atoms = G.expand_atoms(s2)
        atoms = res["gro"][0] if res["gro"] else []
        if [(x[0], x[1], x[2]) for x in atoms] != [(w[2], w[3], w[4]) for w in want_atoms]:
            viols.append(dict(assertion="molecule-list-unchanged", tags=["two-ligand-options"], message=f"-lig {s2['kwargs']['ligands']}: output atoms differ", case=case1, detail={}))
            continue
        pos = {}
        for (mi, name, resid, resname, an), x in zip(want_atoms, atoms):
            pos[(mi, resid - 1)] = np.array(x[3])
        box = np.array(s2["box"])
        for hm, hr, lm in ((hm1, hr1, lm1), (hm2, hr2, lm2)):
            step = (G.DEFAULT_VOLUMES[resinfo["CH4"][hr][0]] + G.DEFAULT_VOLUMES["W"]) / 2.0
            dist = np.linalg.norm(O.min_image(pos[(hm, hr)] - pos[(lm, 0)], box))
            if not abs(dist - step) <= 2e-3 and len(viols) < 20:
                viols.append(dict(assertion="ligand-one-step-from-host", tags=["two-ligand-options"],
                                  message=f"-lig {s2['kwargs']['ligands']}: ligand molecule {lm} is {dist:.4f} nm from host residue {(hm, hr)}, step {step}", case=case1, detail={}))
        keys.append(f"lig2:{a}:{b}")
    return viols, evals, keys


def check_lig_scattered(case):
    """ligand molecules named by their molecule name only, with the molecules of that name not standing next to each other in
    [ molecules ]: the k-th host gets the k-th molecule of that name, every one of them ends one step from its host"""
    viols, evals, keys = [], 0, []
    resinfo = [("S", 1), ("B", 2), ("S", 3), ("B", 4)]
    for mols in ([("W", 1), ("CH4", 1), ("W", 1), ("CH4", 1)], [("CH4", 1), ("W", 1), ("SOL", 1), ("CH4", 1), ("W", 1)],
                 [("W", 1), ("SOL", 2), ("W", 1), ("CH4", 2)]):
        sysd = dict(SYS, types=sorted({m for m, _ in mols}), molecules=mols, kwargs=dict(nrewind=2, maxiter=5))
        flat = [m for m, c in mols for _ in range(c)]
        hmols = [i for i, m in enumerate(flat) if m == "CH4"]
        lmols = [i for i, m in enumerate(flat) if m == "W"]
        for hspec, hr in (("CH4-B#2", 1), ("CH4-S#3", 2), ("-B#4", 3)):
            for lspec in ("W", "W-W", "W-W#1"):
                s2 = json.loads(json.dumps(sysd))
                s2["kwargs"]["ligands"] = [[hspec, lspec]]
                evals += 1
                case1 = dict(kind="ligsc1", mols=[list(m) for m in mols], host=hspec, lig=lspec)
                res = G.run_gen_coords(s2, Chooser([]))
                if res["exc"] is not None:
                    viols.append(crash_violation(res["exc"], case1, assertion="ligand-spec-accepted", tags=["ligand-molecules-not-adjacent"]))
                    continue
                want_atoms = G.expand_atoms(s2)
                atoms = res["gro"][0] if res["gro"] else []
                if [(x[0], x[1], x[2]) for x in atoms] != [(w[2], w[3], w[4]) for w in want_atoms]:
                    viols.append(dict(assertion="molecule-list-unchanged", tags=["ligand-molecules-not-adjacent"], message=f"{mols} -lig {hspec}:{lspec}: output atoms differ", case=case1, detail={}))
                    continue
                pos = {}
                for (mi, name, resid, resname, an), x in zip(want_atoms, atoms):
                    pos[(mi, resid - 1)] = np.array(x[3])
                box = np.array(s2["box"])
                for hm, lm in zip(hmols, lmols):
                    step = (G.DEFAULT_VOLUMES[resinfo[hr][0]] + G.DEFAULT_VOLUMES["W"]) / 2.0
                    dist = np.linalg.norm(O.min_image(pos[(hm, hr)] - pos[(lm, 0)], box))
                    if not abs(dist - step) <= 2e-3 and len(viols) < 20:
                        viols.append(dict(assertion="ligand-one-step-from-host", tags=["ligand-molecules-not-adjacent"],
                                          message=f"{mols} -lig {hspec}:{lspec}: ligand molecule {lm} is {dist:.4f} nm from host residue {(hm, hr)}, step {step}", case=case1, detail={}))
                keys.append(f"ligsc:{mols}:{hspec}:{lspec}")
    return viols, evals, keys


def check_lig_sizes(case):
    """a host with a ligand, and molecules with more (or fewer) residues than the host elsewhere in the topology, which the
    option does not name: they come out complete, the ligand one step from its host"""
    viols, evals, keys = [], 0, []
    for mols, host_idx, lig_idx in (([("CH3", 1), ("W", 1), ("CH5", 1)], 0, 1), ([("CH5", 1), ("CH3", 1), ("W", 1), ("CH6", 1)], 1, 2),
                                    ([("CH3", 1), ("W", 1), ("CH2", 1), ("CH5", 2)], 0, 1), ([("W", 1), ("CH6", 1), ("CH3", 1), ("CH5", 1)], 2, 0)):
        sysd = dict(SYS, types=sorted({m for m, _ in mols}), molecules=mols, kwargs=dict(nrewind=2, maxiter=5))
        for hr in (0, 2):
            for hspec in (f"CH3-S#{hr + 1}", f"CH3#{host_idx}-#{hr + 1}"):
                for lspec in ("W", f"W#{lig_idx}"):
                    s2 = json.loads(json.dumps(sysd))
                    s2["kwargs"]["ligands"] = [[hspec, lspec]]
                    evals += 1
                    case1 = dict(kind="ligsz1", mols=[list(m) for m in mols], host=hspec, lig=lspec)
                    res = G.run_gen_coords(s2, Chooser([]))
                    if res["exc"] is not None:
                        viols.append(crash_violation(res["exc"], case1, assertion="ligand-spec-accepted", tags=["other-molecules-longer-than-host"]))
                        continue
                    want_atoms = G.expand_atoms(s2)
                    atoms = res["gro"][0] if res["gro"] else []
                    if [(x[0], x[1], x[2]) for x in atoms] != [(w[2], w[3], w[4]) for w in want_atoms]:
                        viols.append(dict(assertion="molecule-list-unchanged", tags=["other-molecules-longer-than-host"], message=f"{mols} -lig {hspec}:{lspec}: output atoms differ", case=case1, detail={}))
                        continue
                    pos = {}
                    for (mi, name, resid, resname, an), x in zip(want_atoms, atoms):
                        pos[(mi, resid - 1)] = np.array(x[3])
                    box = np.array(s2["box"])
                    step = (G.DEFAULT_VOLUMES["S"] + G.DEFAULT_VOLUMES["W"]) / 2.0
                    dist = np.linalg.norm(O.min_image(pos[(host_idx, hr)] - pos[(lig_idx, 0)], box))
                    if not abs(dist - step) <= 2e-3 and len(viols) < 20:
                        viols.append(dict(assertion="ligand-one-step-from-host", tags=["other-molecules-longer-than-host"],
                                          message=f"{mols} -lig {hspec}:{lspec}: ligand molecule {lig_idx} is {dist:.4f} nm from host residue {(host_idx, hr)}, step {step}", case=case1, detail={}))
                    if not all(np.all(np.isfinite(p)) for p in pos.values()) and len(viols) < 20:
                        viols.append(dict(assertion="molecule-list-unchanged", tags=["other-molecules-longer-than-host"], message=f"{mols} -lig {hspec}:{lspec}: non-finite coordinates", case=case1, detail={}))
                    keys.append(f"ligsz:{mols}:{hspec}:{lspec}")
    return viols, evals, keys


# ------------------------------------------------------------------ -split
def partitions(items):
    if not items:
        yield []
        return
    first, rest = items[0], items[1:]
    for p in partitions(rest):
        for i in range(len(p)):
            yield p[:i] + [[first] + p[i]] + p[i + 1:]
        yield [[first]] + p


SPLIT_SYS = dict(types=["MIX3"], molecules=[("MIX3", 2)], box=[4.0, 4.0, 4.0], grid=[[1.0, 1.0, 1.0], [3.0, 3.0, 3.0], [2.0, 1.0, 3.0]])
# MIX3 residues: S(a) D(p,q) T(x,y,z)


def split_strings():
    for resname, atoms in (("D", ["p", "q"]), ("T", ["x", "y", "z"])):
        for part in partitions(atoms):
            if len(part) < 2:
                continue
            new = [(f"{resname}{i}", grp) for i, grp in enumerate(part)]
            yield resname, new, resname + ":" + ":".join(f"{nn}-{','.join(g)}" for nn, g in new)


def check_split(case):
    viols, evals, keys = [], 0, []
    with H.tempdir() as d:
        base = read_top(d, SPLIT_SYS)
        for resname, new, sstr in split_strings():
            for combo in ([sstr],):
                top = copy.deepcopy(base)
                evals += 1
                case1 = dict(kind="split1", split=combo)
                mm = top.molecules[0]
                before_atoms = sorted((mm.molecule.nodes[n]["atomname"], mm.molecule.nodes[n]["resname"]) for n in mm.molecule.nodes)
                before_nodes = {mm.nodes[n]["resname"]: {k: v for k, v in mm.nodes[n].items() if k not in ("graph", "resid")} for n in mm.nodes}
                try:
                    mm.split_residue(combo)
                except Exception as exc:  # noqa
                    viols.append(crash_violation(exc, case1, assertion="split-spec-accepted"))
                    continue
                mol = mm.molecule
                after = sorted(mol.nodes[n]["atomname"] for n in mol.nodes)
                if after != sorted(a for a, _ in before_atoms):
                    viols.append(dict(assertion="split-keeps-atoms", tags=[], message=f"{sstr}: atoms {after}", case=case1, detail={}))
                owner = {an: nn for nn, grp in new for an in grp}
                for n in mol.nodes:
                    an, rn = mol.nodes[n]["atomname"], mol.nodes[n]["resname"]
                    want = owner.get(an, dict(before_atoms)[an]) if dict(before_atoms)[an] == resname or an in owner else dict(before_atoms)[an]
                    if rn != want:
                        viols.append(dict(assertion="atom-in-residue-that-names-it", tags=[], message=f"{sstr}: atom {an} in residue {rn} expected {want}", case=case1, detail={}))
                # residue graph: one node per new residue, unsplit residues keep their attributes
                res_of_atoms = {}
                for node in mm.nodes:
                    rn = mm.nodes[node]["resname"]
                    res_of_atoms[rn] = sorted(mol.nodes[a]["atomname"] for a in mm.nodes[node]["graph"].nodes)
                exp_res = {"S": ["a"], "D": ["p", "q"], "T": ["x", "y", "z"]}
                exp_res.pop(resname)
                exp_res.update({nn: sorted(grp) for nn, grp in new})
                if res_of_atoms != exp_res:
                    viols.append(dict(assertion="split-partitions-residue", tags=[], message=f"{sstr}: residues {res_of_atoms} expected {exp_res}", case=case1, detail={}))
                for node in mm.nodes:
                    rn = mm.nodes[node]["resname"]
                    if rn in before_nodes and rn != resname:
                        now = {k: v for k, v in mm.nodes[node].items() if k not in ("graph", "resid", "nnodes", "nedges", "density")}
                        ref = {k: v for k, v in before_nodes[rn].items() if k not in ("nnodes", "nedges", "density")}
                        missing = {k: v for k, v in ref.items() if now.get(k) != v}
                        if missing:
                            viols.append(dict(assertion="unsplit-residues-untouched", tags=["split-drops-attributes-of-other-residues"],
                                              message=f"{sstr}: residue {rn} lost / changed attributes {missing}", case=case1, detail={}))
                keys.append("split:" + sstr)
    return viols, evals, keys


def check_split_reuse(case):
    """-split pieces that take the name of a residue type the molecule already has (cap + monomer): the pieces hold exactly
    the atoms written, every other residue keeps exactly its atoms"""
    viols, evals, keys = [], 0, []
    tests = [("CAP4", "H:S-x:OH-y,z", [("S", ["x"]), ("OH", ["y", "z"]), ("S", ["a"]), ("S", ["a"]), ("S", ["a"])]),
             ("CAP4", "H:OH-x:S-y,z", [("OH", ["x"]), ("S", ["y", "z"]), ("S", ["a"]), ("S", ["a"]), ("S", ["a"])]),
             ("MIX3", "D:S-p:T-q", [("S", ["a"]), ("S", ["p"]), ("T", ["q"]), ("T", ["x", "y", "z"])]),
             ("MIX3", "T:D-x:S-y,z", [("S", ["a"]), ("D", ["p", "q"]), ("D", ["x"]), ("S", ["y", "z"])])]
    with H.tempdir() as d:
        for typ, sstr, want in tests:
            for count in (1, 2):
                top = read_top(d, dict(types=[typ], molecules=[(typ, count)], box=[4.0, 4.0, 4.0]))
                evals += 1
                case1 = dict(kind="splitreuse1", typ=typ, split=sstr, count=count)
                for mm in top.molecules:
                    try:
                        mm.split_residue([sstr])
                    except Exception as exc:  # noqa
                        viols.append(crash_violation(exc, case1, assertion="split-spec-accepted"))
                        break
                    got = sorted((mm.nodes[n]["resname"], sorted(mm.molecule.nodes[a]["atomname"] for a in mm.nodes[n]["graph"].nodes)) for n in mm.nodes)
                    if got != sorted((rn, sorted(ats)) for rn, ats in want) and len(viols) < 20:
                        viols.append(dict(assertion="split-partitions-residue", tags=["piece-reuses-existing-residue-name"],
                                          message=f"{typ} -split {sstr}: residues {got} expected {sorted(want)}", case=case1, detail={}))
                keys.append(f"splitreuse:{typ}:{sstr}:{count}")
    return viols, evals, keys


def check_split_run(case):
    viols, evals, keys = [], 0, []
    singles = list(split_strings())
    combos = [[x] for x in singles] + [[x, y] for x in singles for y in singles if x[0] != y[0]]     # also two -split options at once, both orders
    for combo in combos:
        sstr = [c[2] for c in combo]
        new = [nn for c in combo for nn in c[1]]
        s2 = json.loads(json.dumps(SPLIT_SYS))
        s2["kwargs"] = dict(split=sstr, nrewind=2, maxiter=5)
        s2["volumes"] = {nn: 0.5 for nn, _ in new}
        evals += 1
        case1 = dict(kind="splitrun1", split=sstr)
        s2["bld_extra"] = ["[ volumes ]"] + [f"{nn} 0.5" for nn, _ in new]
        if case.get("with_coords"):
            # the complete structure is supplied (-c): splitting must not change which coordinates an atom gets
            from .c04 import residue_list, supplied_coords
            rl = residue_list(s2)
            centres, atoms_xyz = supplied_coords(rl)
            in_atoms, in_coords = [], []
            for (mi, name, r, resname, names) in rl:
                for an in names:
                    in_atoms.append((r + 1, resname, an))
                    in_coords.append(tuple(float(x) for x in atoms_xyz[(mi, r, an)]))
            s2["input"] = dict(kind="c", atoms=in_atoms, coords=in_coords, box=s2["box"])
            case1["with_coords"] = True
        res = G.run_gen_coords(s2, Chooser([]))
        if res["exc"] is None and case.get("with_coords") and res["gro"]:
            for x, c in zip(res["gro"][0], in_coords):
                if tuple(round(v, 3) for v in x[3]) != tuple(round(v, 3) for v in c) and len(viols) < 20:
                    viols.append(dict(assertion="split-keeps-supplied-coordinates", tags=["split-with-input-structure"],
                                      message=f"-split {sstr} with a complete -c structure: atom {x[2]} written at {x[3]}, supplied {c}", case=case1, detail={}))
        if res["exc"] is not None:
            viols.append(crash_violation(res["exc"], case1, assertion="gen_coords-with-split-builds",
                                         tags=["split-drops-attributes-of-other-residues"] if "'build'" in str(res["exc"]) or "'backmap'" in str(res["exc"]) else []))
            continue
        atoms = res["gro"][0] if res["gro"] else []
        want = [w[4] for w in G.expand_atoms(s2)]
        if [a[2] for a in atoms] != want:
            viols.append(dict(assertion="split-keeps-atoms", tags=[], message=f"{sstr}: output atom names {[a[2] for a in atoms]}", case=case1, detail={}))
        keys.append("splitrun:" + "+".join(sstr) + (":c" if case.get("with_coords") else ""))
        # -split together with -start: the start residue is named by what the residues are called after the split
        if not case.get("with_coords") and len(combo) == 1 and combo[0][0] == "D":
            s3 = json.loads(json.dumps(s2))
            s3["kwargs"]["start"] = ["MIX3-T#3"]
            evals += 1
            res3 = G.run_gen_coords(s3, Chooser([]))
            case3 = dict(kind="splitrun1", split=sstr, start="MIX3-T#3")
            if res3["exc"] is not None:
                viols.append(crash_violation(res3["exc"], case3, assertion="gen_coords-with-split-builds", tags=["split-with-start"]))
            else:
                nparts = len(combo[0][1])
                firsts = {}
                for e in res3["events"]:
                    if e[0] == "add" and e[1] not in firsts:
                        firsts[e[1]] = e[2]
                want_first = 1 + nparts          # residues after the split: S, the pieces of D, T
                if any(k != want_first for k in firsts.values()) and len(viols) < 20:
                    viols.append(dict(assertion="start-selects-as-written", tags=["split-with-start"],
                                      message=f"-split {sstr} -start MIX3-T#3: growth started at residue index {firsts} of the split molecules, T is residue index {want_first}", case=case3, detail={}))
    return viols, evals, keys


FUNCS = {"lig-sizes": check_lig_sizes, "lig-scattered": check_lig_scattered, "lig-multires": check_lig_multires, "split-reuse": check_split_reuse, "lig-mismatch": check_lig_mismatch, "lig-unnamed": check_lig_unnamed, "lig-two": check_lig_two, "tags-dup": check_tags_dup, "pairdir": check_pair_directives, "tags": check_tags, "tags-multi": check_tags_multi, "start": check_start, "lig": check_lig, "split": check_split,
         "split-run": check_split_run}


def run_case(case):
    kind = case["kind"]
    if kind not in FUNCS:
        # replay of single sub-cases is done by re-running the owning family (cheap) and filtering
        fam = {"ligsz1": "lig-sizes", "ligsc1": "lig-scattered", "tags1": "tags", "tagsm1": "tags-multi", "pairdir1": "pairdir", "tagsdup1": "tags-dup", "lig2": "lig-two", "ligu1": "lig-unnamed", "ligm1": "lig-mismatch", "splitreuse1": "split-reuse", "ligmr1": "lig-multires", "start1": "start", "lig1": "lig", "split1": "split", "splitrun1": "split-run"}[kind]
        out = []
        for part in range(4 if fam == "lig" else 1):
            c = dict(kind=fam, tier="quick", part=part, directive="sphere" if case.get("key") != "rw_options" else "rw")
            v, _, _ = FUNCS[fam](c)
            out += [x for x in v if {k: x["case"].get(k) for k in case if k != "kind"} == {k: case[k] for k in case if k != "kind"}]
        return dict(evals=1, keys=[], violations=out, stats={})
    v, evals, keys = FUNCS[kind](case)
    return dict(evals=evals, keys=keys, violations=v, stats={f"inputs_{kind}": evals}, sample=dict(case))
