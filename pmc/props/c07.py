"""C07 - build-file restraints hold for every residue they select (E1)."""
import itertools, json, math
import numpy as np
from .. import gc_harness as G, gc_oracle as O
from ..explore_choice import explore, Chooser
from ..runner import crash_violation

PID = "C07"
LEVEL = "model_checking"
RULE = ("build files from a grammar: {sphere, cylinder, rectangle} x {in, out} x 2 sizes x residue ranges (all / a sub-range); "
        "rw_restriction with 2 normals x 2 signed angles, two restrictions on one molecule (disjoint residues; the same residues); distance restraints (d in {0.5, 1.5}, tol in {0, 0.3}) between the ends "
        "of linear chains of 4-6 residues; -cycles on rings of 3-6 residues with cycle_tol in {0, 0.3} and on rings of 4 with a tail of 2 (at the far side / at the first residue); persistence_length on "
        "chains of 5-6 residues with every sampled end-to-end distance as an option; every trajectory of the real gen_coords with "
        "<=2 direction deviations (thorough 3) and <=1 start deviation. Oracle on every accepted placement and on the final "
        "positions: independent geometric predicates for every selected residue; growth direction (minimum-image step vector) "
        "inside the declared cone; each restrained pair ends within [d - tol, d + tol + mean pair size] by minimum image; for a "
        "cyclic molecule the pair is the ring edge missing from the growth tree (computed independently), d = 0; sampled "
        "end-to-end distances lie in [one step, contour length]. distinct_nontrivial = executions with >=1 rejection caused by a restraint")
ASSUMPTIONS = ["6 axis directions; closed boundaries accepted for 'in'/'out' (a superset of what the implementation accepts)",
               "restraints are stated in absolute box coordinates (no periodic images), growth direction is the minimum-image step"]
BUDGET = {"quick": 500, "thorough": 3000}

GRID = [[2.0, 2.0, 2.0], [2.5, 2.0, 2.0], [2.0, 2.5, 1.5], [1.5, 1.5, 2.5], [3.75, 2.0, 2.0], [0.25, 2.0, 2.0]]
BOX = [4.0, 4.0, 4.0]


def geo_line(kind, resname, start, stop, inout, centre, params):
    return f"{resname} {start} {stop} {inout} {centre[0]} {centre[1]} {centre[2]} " + " ".join(map(str, params))


def systems(tier):
    out = []
    c = (2.0, 2.0, 2.0)
    for typ in ("CH4", "BR5"):
        names = sorted({r for r, _ in G.TYPES[typ]["res"]})
        n = len(G.TYPES[typ]["res"])
        for kind, params_list in (("sphere", [(1.2,), (1.0,)]), ("cylinder", [(1.0, 0.8), (0.7, 1.5)]), ("rectangle", [(1.0, 0.8, 1.2), (0.6, 1.5, 0.6)])):
            for inout in ("in", "out"):
                for params in params_list[:1] if (typ == "BR5" and tier == "quick") else params_list:
                    for rng in ((1, n + 1), (2, 4)):
                        geos = [dict(kind=kind, resname=rn, start=rng[0], stop=rng[1], inout=inout, centre=c, params=params) for rn in names]
                        out.append(dict(types=[typ], molecules=[(typ, 1)], box=BOX, grid=GRID, geos=geos, kwargs=dict(nrewind=2, maxiter=4)))
    for normal, ang in itertools.product(((1.0, 0.0, 0.0), (0.0, 0.0, 1.0)), (50.0, 95.0)):
        for gridsel in (GRID, [GRID[4], GRID[5]] + GRID[:2], [GRID[5], GRID[4]] + GRID[:2], [[2.0, 2.0, 0.25], [2.0, 2.0, 3.75]] + GRID[:2]):
            out.append(dict(types=["CH5"], molecules=[("CH5", 1)], box=BOX, grid=gridsel,
                            rw=dict(resname="S", start=2, stop=6, normal=normal, angle=ang), kwargs=dict(nrewind=2, maxiter=4)))
    for typ in ("CH4", "CH5", "CH6"):
        n = len(G.TYPES[typ]["res"])
        for d, tol in itertools.product((0.5, 1.5), (0.0, 0.3)):
            if typ == "CH4":
                # CH4 has mixed sizes (S, B): mean pair size 0.75
                pass
            out.append(dict(types=[typ], molecules=[(typ, 1)], box=BOX, grid=GRID, dist=[(0, n - 1, d, tol)], kwargs=dict(nrewind=3, maxiter=4)))
    # several restraints on one molecule whose paths overlap, in both orders of definition; with a cycle / persistence restraint
    for a, b in (((0, 2, 1.0, 0.3), (0, 5, 1.5, 0.3)), ((0, 5, 1.5, 0.3), (0, 2, 1.0, 0.3)), ((0, 3, 1.5, 0.3), (0, 5, 1.0, 0.3))):
        out.append(dict(types=["CH6"], molecules=[("CH6", 1)], box=BOX, grid=GRID, dist=[a, b], kwargs=dict(nrewind=3, maxiter=4)))
    # a restraint with a wide tolerance followed by restraints without the tolerance column
    out.append(dict(types=["CH6"], molecules=[("CH6", 1)], box=BOX, grid=GRID, dist=[(0, 2, 1.0, 0.9), (0, 5, 0.5, 0.0)], kwargs=dict(nrewind=3, maxiter=4)))
    out.append(dict(types=["CH6"], molecules=[("CH6", 1)], box=BOX, grid=GRID, dist=[(0, 1, 0.5, 1.5), (1, 5, 1.0, 0.0), (0, 3, 0.5, 0.0)], kwargs=dict(nrewind=3, maxiter=4)))
    out.append(dict(types=["CH6"], molecules=[("CH6", 1)], box=BOX, grid=GRID, pers=dict(lp=1.0, start=0, stop=5), dist=[(0, 2, 1.0, 0.0)],
                    kwargs=dict(nrewind=3, maxiter=4)))
    # combinations of restraint kinds on one molecule
    sph = dict(kind="sphere", resname="S", start=1, stop=7, inout="in", centre=c, params=(1.6,))
    cyl = dict(kind="cylinder", resname="S", start=2, stop=5, inout="out", centre=c, params=(0.4, 0.4))
    rec = dict(kind="rectangle", resname="S", start=1, stop=4, inout="in", centre=c, params=(1.5, 1.0, 1.5))
    rwx = dict(resname="S", start=2, stop=7, normal=(1.0, 0.0, 0.0), angle=95.0)
    combos = [dict(geos=[sph, cyl]), dict(geos=[sph, rec]), dict(geos=[sph], rw=rwx), dict(geos=[cyl], rw=rwx),
              dict(geos=[sph], dist=[(0, 5, 1.5, 0.3)]), dict(rw=rwx, dist=[(0, 5, 1.5, 0.3)]),
              dict(geos=[rec], rw=rwx, dist=[(0, 4, 2.0, 0.3)]), dict(geos=[sph], pers=dict(lp=1.0, start=0, stop=5))]
    for cmb in combos:
        grid = ([[0.75, 2.0, 2.0]] + GRID) if "rw" in cmb else GRID
        out.append(dict(types=["CH6"], molecules=[("CH6", 1)], box=BOX, grid=grid, kwargs=dict(nrewind=3, maxiter=4), **cmb))
    # two direction restrictions on one molecule: for different residues, and both on the same residues (the body
    # diagonals are the only lattice directions with a positive component along two axes)
    rwz = dict(resname="S", start=4, stop=7, normal=(0.0, 0.0, 1.0), angle=95.0)
    rwx2 = dict(resname="S", start=2, stop=4, normal=(1.0, 0.0, 0.0), angle=95.0)
    out.append(dict(types=["CH6"], molecules=[("CH6", 1)], box=BOX, grid=[[0.75, 2.0, 0.75]] + GRID, rw=[rwx2, rwz], kwargs=dict(nrewind=3, maxiter=4)))
    out.append(dict(types=["CH6"], molecules=[("CH6", 1)], box=BOX, grid=[[0.75, 2.0, 0.75]] + GRID, rw=[rwz, rwx2], kwargs=dict(nrewind=3, maxiter=4)))
    # a forbidden sphere lying against a box face, the chain started next to the opposite face: a step through the face lands
    # (wrapped) inside the sphere
    out.append(dict(types=["CH5"], molecules=[("CH5", 1)], box=BOX, grid=[[3.75, 2.0, 2.0], [3.75, 2.5, 2.0]] + GRID, kwargs=dict(nrewind=3, maxiter=4),
                    geos=[dict(kind="sphere", resname="S", start=1, stop=6, inout="out", centre=(0.25, 2.0, 2.0), params=(0.6,))]))
    # normals that are not unit vectors with a cone that binds (body diagonals lie 54.7 degrees from an axis, face diagonals
    # 45 / 60 / 90 degrees from another face diagonal)
    out.append(dict(types=["CH5"], molecules=[("CH5", 1)], box=BOX, grid=[[2.0, 2.0, 0.75]] + GRID, bundle="axis+diag14", kwargs=dict(nrewind=3, maxiter=4),
                    rw=dict(resname="S", start=2, stop=6, normal=(0.0, 0.0, 2.0), angle=50.0), devs=1))
    out.append(dict(types=["CH5"], molecules=[("CH5", 1)], box=BOX, grid=[[0.75, 0.75, 2.0]] + GRID, bundle="axis+face18", kwargs=dict(nrewind=3, maxiter=4),
                    rw=dict(resname="S", start=2, stop=6, normal=(1.0, 1.0, 0.0), angle=50.0), devs=1))
    out.append(dict(types=["CH5"], molecules=[("CH5", 1)], box=BOX, grid=[[2.0, 2.0, 0.75]] + GRID, bundle="axis+diag14", kwargs=dict(nrewind=3, maxiter=4),
                    rw=dict(resname="S", start=2, stop=6, normal=(0.0, 0.0, 0.25), angle=60.0), devs=1))
    both = [dict(resname="S", start=2, stop=6, normal=(1.0, 0.0, 0.0), angle=95.0), dict(resname="S", start=2, stop=6, normal=(0.0, 0.0, 1.0), angle=95.0)]
    out.append(dict(types=["CH5"], molecules=[("CH5", 1)], box=BOX, grid=[[0.75, 2.0, 0.75]] + GRID, rw=both, bundle="axis+diag14", kwargs=dict(nrewind=3, maxiter=4)))
    out.append(dict(types=["CH5"], molecules=[("CH5", 1)], box=BOX, grid=[[0.75, 2.0, 0.75]] + GRID, rw=both[::-1], bundle="axis+diag14", kwargs=dict(nrewind=3, maxiter=4)))
    for typ in ("RING3", "RING4", "RING5", "RING6"):
        for tol in (0.0, 0.3):
            # rings need the face-diagonal directions (60 degree angles exist among them) to be closable within one step
            out.append(dict(types=[typ], molecules=[(typ, 1)], box=BOX, grid=GRID, cyc=True, bundle="axis+face18", kwargs=dict(cycles=[typ], cycle_tol=tol, nrewind=3, maxiter=4)))
    # declared cyclic and grown from a residue in the middle of the ring (-start): the search tree runs against the residue order
    for typ, st in (("RING5", "RING5#0-S#3"), ("RING6", "RING6#0-S#4"), ("RING4", "RING4-S#2")):
        out.append(dict(types=[typ], molecules=[(typ, 1)], box=BOX, grid=GRID, cyc=True, bundle="axis+face18",
                        kwargs=dict(cycles=[typ], cycle_tol=0.3, nrewind=3, maxiter=4, start=[st])))
    # restraints on chains / rings whose first two residues are supplied as centres (-mc)
    pre = dict(kind="mc", atoms=[(1, "S", "a"), (2, "S", "a")], coords=[(1.0, 1.0, 1.0), (1.5, 1.0, 1.0)], box=BOX)
    out.append(dict(types=["CH6"], molecules=[("CH6", 1)], box=BOX, grid=GRID, dist=[(0, 5, 1.5, 0.3)], kwargs=dict(nrewind=3, maxiter=4), input=pre))
    out.append(dict(types=["CH6"], molecules=[("CH6", 1)], box=BOX, grid=GRID, dist=[(1, 5, 1.5, 0.3)], kwargs=dict(nrewind=3, maxiter=4), input=pre))
    out.append(dict(types=["RING5"], molecules=[("RING5", 1)], box=BOX, grid=GRID, cyc=True, bundle="axis+face18",
                    kwargs=dict(cycles=["RING5"], cycle_tol=0.3, nrewind=3, maxiter=4), input=pre))
    # two cyclic molecule types with different residue sizes in one run (the larger one first): the slack of every restrained
    # pair is the mean residue-pair size of its own molecule
    for mols in ([("RINGB4", 1), ("RING4", 1)], [("RING4", 1), ("RINGB4", 1)]):
        out.append(dict(types=["RING4", "RINGB4"], molecules=mols, box=[6.0, 6.0, 6.0], grid=[[2.0, 2.0, 2.0], [4.5, 4.5, 4.5], [2.0, 4.5, 2.0], [4.5, 2.0, 4.5]], cyc=True, devs=1,
                        bundle="axis+face18", kwargs=dict(cycles=[m for m, _ in mols], cycle_tol=0.3, nrewind=3, maxiter=4)))
    for typ in ("LASSO", "LASSO0"):
        out.append(dict(types=[typ], molecules=[(typ, 1)], box=BOX, grid=GRID, cyc=True, bundle="axis+face18", kwargs=dict(cycles=[typ], cycle_tol=0.3, nrewind=3, maxiter=4)))
    for typ in ("CH5", "CH6"):
        n = len(G.TYPES[typ]["res"])
        out.append(dict(types=[typ], molecules=[(typ, 2)], box=BOX, grid=GRID, pers=dict(lp=1.0, start=0, stop=n - 1), kwargs=dict(nrewind=3, maxiter=4)))
    return out


def rw_list(sysd):
    rw = sysd.get("rw")
    return [] if not rw else (rw if isinstance(rw, list) else [rw])


def render_extra(sysd):
    lines = []
    typ = sysd["types"][0]
    nmol = sysd["molecules"][0][1]
    if sysd.get("geos") or sysd.get("rw") or sysd.get("dist") or sysd.get("pers"):
        lines += ["[ molecule ]", f"{typ} 0 {nmol}"]
    by_kind = {}
    for g in sysd.get("geos", []):
        by_kind.setdefault(g["kind"], []).append(g)
    for kind, gs in by_kind.items():
        lines.append(f"[ {kind} ]")
        for g in gs:
            lines.append(geo_line(kind, g["resname"], g["start"], g["stop"], g["inout"], g["centre"], g["params"]))
    for r in rw_list(sysd):
        lines += ["[ rw_restriction ]", f"{r['resname']} {r['start']} {r['stop']} {r['normal'][0]} {r['normal'][1]} {r['normal'][2]} {r['angle']}"]
    if sysd.get("dist"):
        lines.append("[ distance_restraints ]")
        for a, b, d, tol in sysd["dist"]:
            # the tolerance column is optional: a restraint without tolerance is written without it
            lines.append(f"{a} {b} {d} {tol}" if tol else f"{a} {b} {d}")
    if sysd.get("pers"):
        p = sysd["pers"]
        lines += ["[ persistence_length ]", f"WCM {p['lp']} {p['start']} {p['stop']}"]
    return lines


def cases(tier):
    for i, s in enumerate(systems(tier)):
        yield dict(sys=s, idx=i, tier=tier)


def geo_ok(g, p):
    d = np.asarray(g["centre"]) - p
    if g["kind"] == "sphere":
        r = np.linalg.norm(d)
        return r <= g["params"][0] + 1e-9 if g["inout"] == "in" else r >= g["params"][0] - 1e-9
    if g["kind"] == "cylinder":
        rad, hh = np.linalg.norm(d[:2]), abs(d[2])
        inside = rad <= g["params"][0] + 1e-9 and hh <= g["params"][1] + 1e-9
        strictly_inside = rad < g["params"][0] - 1e-9 and hh < g["params"][1] - 1e-9
        return inside if g["inout"] == "in" else not strictly_inside
    inside = all(abs(x) <= m + 1e-9 for x, m in zip(d, g["params"]))
    strictly_inside = all(abs(x) < m - 1e-9 for x, m in zip(d, g["params"]))
    return inside if g["inout"] == "in" else not strictly_inside


def run_exec(sysd, chooser):
    s2 = dict(sysd)
    s2["bld_extra"] = render_extra(sysd)
    return G.run_gen_coords(s2, chooser, vec_default="rotate", bundle=sysd.get("bundle", "axis6"))


def judge(sysd, res, choices):
    viols = []
    case1 = dict(sys=sysd, choices=choices)

    def bad(assertion, msg, tags=()):
        if len(viols) < 10:
            viols.append(dict(assertion=assertion, tags=list(tags), message=msg + f" | choices={choices}", case=case1, detail={}))
    if res["divergence"]:
        bad("harness-replay-divergence", res["divergence"], ["harness"])
        return viols, 0
    if res["horizon"]:
        return viols, 0
    if res["exc"] is not None:
        viols.append(crash_violation(res["exc"], case1, assertion="building-with-restraints-does-not-crash"))
        return viols, 0
    mol_types = [name for name, count in sysd["molecules"] for _ in range(count)]
    tdefs = [G.TYPES[t] for t in mol_types]
    typ = mol_types[0]
    tdef = tdefs[0]
    resnames = [r for r, _ in tdef["res"]]
    box = np.array(sysd["box"])
    sizes = res.get("sizes", {})
    pos, parent = {}, {}
    pend = None
    rejections = 0
    for e in res["events"]:
        if e[0] == "engine":
            pos = {k: np.array(v) for k, v in e[1].items()}
        elif e[0] == "step":
            pend = (e[1], e[2], e[3])
        elif e[0] == "step-result" and not e[3]:
            rejections += 1
        elif e[0] == "remove":
            for k in e[2]:
                pos.pop((e[1], k), None)
        elif e[0] == "add":
            m, k, p = e[1], e[2], np.array(e[3])
            resid, resname = k + 1, tdefs[m]["res"][k][0]
            for g in sysd.get("geos", []):
                if g["resname"] == resname and g["start"] <= resid < g["stop"] and not geo_ok(g, p):
                    bad("geometric-restraint-holds", f"residue {resid}{resname} placed at {p} violates {g['kind']} {g['inout']} {g['centre']} {g['params']}")
            rw = sysd.get("rw")
            for rw in rw_list(sysd):
              if pend and pend[:2] == (m, k) and (m, pend[2]) in pos and rw["resname"] == resname and rw["start"] <= resid < rw["stop"]:
                step = O.min_image(p - pos[(m, pend[2])], box)
                nrm = np.array(rw["normal"])
                cosang = float(np.dot(nrm, step) / (np.linalg.norm(nrm) * np.linalg.norm(step)))
                ang = math.degrees(math.acos(max(-1.0, min(1.0, cosang))))
                sign_ok = np.sign(np.dot(nrm, step)) == np.sign(rw["angle"])
                tags = ["several-direction-restrictions"] if len(rw_list(sysd)) > 1 else []
                if not np.allclose(step, p - pos[(m, pend[2])]):
                    tags.append("step-across-periodic-boundary")
                # the cone is around the normal for positive angles and around -normal for negative ones
                ang_ok = (ang <= abs(rw["angle"]) + 1e-9) if rw["angle"] > 0 else True
                if not sign_ok or not ang_ok:
                    bad("growth-direction-restriction-holds", f"residue {resid}{resname}: step {step} from {pos[(m, pend[2])]} to {p}, normal {rw['normal']} angle {rw['angle']} (angle to normal {ang:.1f})", tags)
            pos[(m, k)] = p
            pend = None
    # final positions: pair restraints
    nmol = sysd["molecules"][0][1]
    n = len(resnames)
    def avg_of(m):
        ed = tdefs[m]["edges"]
        return float(np.mean([(sizes.get((m, a), 0) + sizes.get((m, b), 0)) / 2.0 for a, b in ed])) if ed else 0.0
    avg = avg_of(0)
    pairs = []
    for a, b, d, tol in sysd.get("dist", []):
        pairs += [(m, a, b, d, tol, "distance-restraint") for m in range(nmol)]
    if sysd.get("cyc"):
        # closing edge = the ring edge that is not in the growth tree: recover the tree from the step events
        for m in range(len(mol_types)):
            tdef = tdefs[m]
            tree = set()
            for e in res["events"]:
                if e[0] == "path" and e[1] == m:
                    tree = {frozenset(x) for x in e[2]}
            ring = {frozenset(x) for x in tdef["edges"]}
            missing = [tuple(x) for x in ring - tree]
            if len(missing) != 1:
                bad("cycle-closing-pair", f"molecule {m}: growth tree {sorted(map(sorted, tree))} does not miss exactly one ring edge")
            else:
                a, b = missing[0]
                pairs.append((m, a, b, 0.0, sysd["kwargs"].get("cycle_tol", 0.0), "cycle-closed"))
    ee = [e for e in res["events"] if e[0] == "ee-sample"]
    if sysd.get("pers"):
        p = sysd["pers"]
        if not ee:
            bad("end-to-end-sampled", "no end-to-end distance was sampled")
        else:
            cands, chosen = ee[0][1], ee[0][2]
            contour = avg * (n - 1)
            for dval in chosen:
                if dval < avg - 1e-9 or dval > contour + 1e-9:
                    bad("sampled-distance-between-one-step-and-contour-length", f"sampled {dval}, step {avg}, contour length {contour}")
            for m, dval in zip(range(nmol), chosen):
                pairs.append((m, p["start"], p["stop"], dval, 0.0, "end-to-end-distance"))
    for m, a, b, d, tol, label in pairs:
        if (m, a) not in pos or (m, b) not in pos:
            bad(label, f"molecule {m}: residue {a} or {b} has no position")
            continue
        r = np.linalg.norm(O.min_image(pos[(m, a)] - pos[(m, b)], box))
        avg = avg_of(m)
        if not (d - tol - 1e-9 <= r <= d + tol + avg + 1e-9):      # also true for nan
            bad(label, f"molecule {m}: residues {a},{b} end {r:.4f} nm apart, allowed [{d - tol:.4f}, {d + tol + avg:.4f}] (d={d} tol={tol} mean pair size={avg})",
                ["cyclic-molecule"] if label == "cycle-closed" else [])
    return viols, rejections


def run_case(case):
    sysd = case["sys"]
    if "choices" in case:
        res = run_exec(sysd, Chooser(case["choices"]))
        v, _ = judge(sysd, res, case["choices"])
        return dict(evals=1, keys=[], violations=v, stats={})
    d = sysd.get("devs") or (2 if case["tier"] == "quick" else 3)
    bounds = {"vec": d, "grid": 1, "env": 1, "*": d}
    evals, keys, viols, traces, ntrans = 0, set(), [], set(), 0
    stats = dict(executions=0, horizon_cuts=0, restraint_rejections=0, unowned_random_draws=0)
    for prefix, ch, res in explore(lambda c: run_exec(sysd, c), bounds, stats=stats, max_execs=1500):
        evals += 1
        ntrans += len(ch.trace)
        stats["executions"] += 1
        stats["unowned_random_draws"] += res["unowned"]
        stats["horizon_cuts"] += int(res["horizon"])
        v, rej = judge(sysd, res, ch.choices())
        nvec = sum(1 for t in ch.trace if t[0] in ("vec", "vec-retry"))
        nacc = sum(1 for e in res["events"] if e[0] == "step-result" and e[3])
        stats["restraint_rejections"] += max(0, nvec - nacc)
        if len(viols) < 20:
            viols += v
        tr = hash(repr(res["events"]))
        traces.add(tr)
        if nvec - nacc > 0:
            keys.add(f"{case['idx']}:{tr}")
    stats["states"] = len(traces)
    stats["transitions"] = ntrans
    stats["systems_capped_at_1500_executions"] = int(evals >= 1500)
    return dict(evals=evals, keys=sorted(keys), violations=viols, stats=stats,
                sample={k: sysd.get(k) for k in ("types", "geos", "rw", "dist", "cyc", "pers", "kwargs") if sysd.get(k)})


def finalize(agg, tier):
    probs = []
    if agg["stats"].get("restraint_rejections", 0) == 0:
        probs.append("no placement was rejected: the restraints never constrained anything")
    if agg["stats"].get("unowned_random_draws", 0):
        probs.append("random draws outside the seams")
    return probs
