"""C16 - the neighbour engine reflects exactly the currently positioned residues.

E2: explicit-state breadth-first search to closure over real NonBondEngine
method calls.  State = canonical content of the live object; transitions = real
add_positions / remove_positions / concatenate_trees calls; after every
transition the four internal views are compared with a dict-based reference
model, and in every distinct state all force / point / distance queries are
compared with brute-force minimum-image arithmetic.
"""
import copy, itertools, json, math
import numpy as np

PID = "C16"
LEVEL = "model_checking"
RULE = ("explicit-state BFS to closure; state = (position per node, sorted index list per search tree, node->tree map) "
        "read from the live NonBondEngine; alphabet = add(node,point,start) for every node x candidate point x start flag, "
        "remove(molecule, every subset of its nodes), concatenate_trees(); every state: get_point, 4-view consistency, "
        "compute_force_point for every probe x node x exclusion subset against a brute-force minimum-image reference, "
        "pbc_min_dist laws on all point pairs. distinct_nontrivial = distinct reachable states with >=1 positioned node")
ASSUMPTIONS = ["candidate and probe points are kept >=1e-3 away from the 0.1 nm floor and from the cut-off so no verdict hinges on < vs <=",
               "rectangular boxes only (the engine's documented domain)",
               "the 5000-point threshold for opening a new search tree is crossed by pre-loading 5001 static far-away points"]
BUDGET = {"quick": 420, "thorough": 2400}

SIZES = {"S": 0.4, "B": 0.6}


def lb(a, b):
    return ((SIZES[a] + SIZES[b]) / 2.0, 1.0)


CONFIGS = {
    # name: (box, node layout [(mol, node, atype)], points, probes, static)
    "cubic-2x2": dict(box=[3.0, 3.0, 3.0], nodes=[(0, 0, "S"), (0, 1, "B"), (1, 0, "S"), (1, 1, "B")], static=0),
    "ortho-2x2": dict(box=[3.0, 3.2, 3.4], nodes=[(0, 0, "S"), (0, 1, "B"), (1, 0, "B"), (1, 1, "S")], static=0),
    "ortho-3+1": dict(box=[3.4, 3.0, 3.2], nodes=[(0, 0, "B"), (0, 1, "S"), (0, 2, "S"), (1, 7, "B")], static=0),
    "multi-tree-2x2": dict(box=[3.0, 3.2, 3.4], nodes=[(0, 0, "S"), (0, 1, "B"), (1, 0, "B"), (1, 1, "S")], static=5001),
    "multi-tree-1x2": dict(box=[3.0, 3.2, 3.4], nodes=[(0, 0, "S"), (0, 1, "B")], static=5001),
    "multi-tree-1+1": dict(box=[3.0, 3.0, 3.0], nodes=[(0, 0, "B"), (1, 0, "S")], static=5001),
    "multi-tree-1x3": dict(box=[3.0, 3.0, 3.0], nodes=[(0, 0, "S"), (0, 1, "B"), (0, 2, "S")], static=5001),
}
QUICK = ["cubic-2x2", "ortho-2x2", "multi-tree-1x2", "multi-tree-1+1"]
SHARDS = {"multi-tree-2x2": 12, "multi-tree-1x3": 6, "cubic-2x2": 2, "ortho-2x2": 2, "ortho-3+1": 2}

# candidate points for nodes (chosen relative to the box so that every query class is reachable)
def points_for(box):
    bx, by, bz = box
    return [np.array([0.10, 0.10, 0.10]),
            np.array([bx - 0.10, 0.10, 0.10]),       # 0.2 from p0 across the periodic boundary
            np.array([0.15, 0.10, 0.10]),            # 0.05 from p0 (below the 0.1 nm floor)
            np.array([0.10, 0.90, 0.10])]            # 0.8 from p0, direct


def probes_for(box):
    bx, by, bz = box
    return [np.array([0.35, 0.10, 0.10]),            # near p0/p2 directly, p1 across boundary
            np.array([bx - 0.30, by - 0.20, 0.20]),   # everything across one or two boundaries
            np.array([0.10, 0.50, bz - 0.30]),       # between p0 and p3, across z
            np.array([bx / 2 + 0.1, by / 2 + 0.2, bz / 2 + 0.3])]  # outside every cut-off


def cases(tier):
    names = QUICK if tier == "quick" else list(CONFIGS)
    for name in names:
        k = SHARDS.get(name, 1)
        for sh in range(k):
            yield {"config": name, "tier": tier, "shard": sh, "nshards": k}


def make_engine(cfg):
    from polyply.src.nonbond_engine import NonBondEngine
    nodes = cfg["nodes"]
    nstat = cfg["static"]
    n = len(nodes) + nstat
    pos = np.ones((n, 3)) * np.inf
    nodes_to_idx = {(m, k): i for i, (m, k, _) in enumerate(nodes)}
    atypes = [t for _, _, t in nodes]
    box = np.array(cfg["box"], dtype=float)
    if nstat:
        # static points on a lattice in the far corner, > cut-off from all candidate points and probes is impossible
        # in a 3 nm box, so they take part in the forces; the reference model counts them too.
        side = int(math.ceil(nstat ** (1 / 3.0)))
        lat = []
        for i, j, k in itertools.product(range(side), repeat=3):
            lat.append([1.5 + 0.1913 * i / side, 1.6 + 0.2127 * j / side, 1.7 + 0.2071 * k / side])
            if len(lat) == nstat:
                break
        for s, p in enumerate(lat):
            pos[len(nodes) + s] = p
            nodes_to_idx[(99, s)] = len(nodes) + s
            atypes.append("T")
    inter = {}
    sizes = dict(SIZES, T=0.05)
    for a, b in itertools.combinations_with_replacement(sorted(sizes), 2):
        inter[frozenset([a, b])] = ((sizes[a] + sizes[b]) / 2.0, 1.0)
    cut = 2 * max(SIZES.values())
    eng = NonBondEngine(pos, nodes_to_idx, atypes, inter, None, None, cut, box)
    return eng, inter, cut, box


def clone(eng):
    """Cheap copy: the engine never mutates a KD-tree in place (it always builds a new one), so trees are shared;
    arrays, index lists and the map are copied. Faithfulness is checked by replaying a history on a fresh engine."""
    new = object.__new__(type(eng))
    new.__dict__.update(eng.__dict__)
    new.positions = eng.positions.copy()
    new.defined_idxs = [list(l) for l in eng.defined_idxs]
    new.position_trees = list(eng.position_trees)
    new.gndx_to_tree = dict(eng.gndx_to_tree)
    return new


def canon(eng, nn):
    pos = tuple(tuple(round(float(x), 9) if np.isfinite(x) else None for x in eng.positions[i]) for i in range(nn))
    trees = []
    for lst in eng.defined_idxs:
        arr = np.asarray(lst, dtype=int)
        small = arr[arr < nn]
        trees.append(tuple(sorted(int(i) for i in small)) + ((("S", int(len(arr) - len(small))),) if len(arr) > len(small) else ()))
    trees = tuple(trees)
    g2t = tuple((k, int(eng.gndx_to_tree[k])) for k in range(nn) if k in eng.gndx_to_tree)
    return (pos, trees, g2t)


def min_image(vec, box):
    return vec - box * np.round(vec / box)


def ref_force(model, static, probe, node_idx, excl_idx, atypes, inter, cut, box):
    """brute force: model = {idx: point}; returns inf or force vector"""
    allp = list(model.items())
    d = [(i, min_image(probe - p, box)) for i, p in allp]
    if any(np.linalg.norm(v) < 0.1 for _, v in d):
        return np.inf
    f = np.zeros(3)
    for i, v in d:
        r = np.linalg.norm(v)
        if r >= cut or i in excl_idx:
            continue
        sig, eps = inter[frozenset([atypes[node_idx], atypes[i]])]
        # -grad of 4 eps [(s/r)^12 - (s/r)^6] along the minimum-image vector
        f += 24 * eps / r * (2 * (sig / r) ** 12 - (sig / r) ** 6) * v / r
    if len(static):
        v = min_image(probe[None, :] - static, box)
        r = np.linalg.norm(v, axis=1)
        if np.any(r < 0.1):
            return np.inf
        sel = r < cut
        if np.any(sel):
            sig, eps = inter[frozenset([atypes[node_idx], "T"])]
            rr, vv = r[sel], v[sel]
            f += np.sum((24 * eps / rr * (2 * (sig / rr) ** 12 - (sig / rr) ** 6) / rr)[:, None] * vv, axis=0)
    return f


def threshold_safe(model, static, probe, cut, box):
    for _, p in list(model.items()):
        r = np.linalg.norm(min_image(probe - p, box))
        if abs(r - 0.1) < 1e-3 or abs(r - cut) < 1e-3:
            return False
    if len(static):
        r = np.linalg.norm(min_image(probe[None, :] - static, box), axis=1)
        if np.any(np.abs(r - 0.1) < 1e-6) or np.any(np.abs(r - cut) < 1e-6):
            return False
    return True


def run_case(case):
    cfg = CONFIGS[case["config"]]
    eng0, inter, cut, box = make_engine(cfg)
    nodes = cfg["nodes"]
    nn = len(nodes)
    atypes = list(eng0.atypes)
    pts = points_for(cfg["box"])
    probes = probes_for(cfg["box"])
    if cfg["static"]:
        probes.append(np.array([1.5 - 1.195, 1.65, 1.75]))   # sees a thin slice of the static cluster within the cut-off
    static = eng0.positions[nn:].copy()
    mols = sorted({m for m, _, _ in nodes})
    ops = []
    for i, (m, k, _) in enumerate(nodes):
        for pi in range(len(pts)):
            for start in (False, True):
                ops.append(("add", i, pi, start))
    for m in mols:
        keys = [k for mm, k, _ in nodes if mm == m]
        for r in range(0, len(keys) + 1):
            for sub in itertools.combinations(keys, r):
                ops.append(("remove", m, list(sub)))
    ops.append(("concat",))
    only_history = case.get("history")

    viols, seen_sigs = [], set()

    def bad(assertion, msg, hist, tags=()):
        sig = (assertion, tuple(tags))
        if sig in seen_sigs and len(viols) > 40:
            return
        seen_sigs.add(sig)
        viols.append(dict(assertion=assertion, tags=list(tags), message=msg,
                          case={"config": case["config"], "tier": case.get("tier", "quick"), "history": hist}, detail={}))

    def apply(eng, model, op):
        if op[0] == "add":
            _, i, pi, start = op
            m, k, _ = nodes[i]
            eng.add_positions(pts[pi].copy(), m, k, start=start)
            model[i] = pts[pi].copy()
        elif op[0] == "remove":
            _, m, keys = op
            eng.remove_positions(m, keys)
            for i, (mm, k, _) in enumerate(nodes):
                if mm == m and k in keys:
                    model.pop(i, None)
        else:
            eng.concatenate_trees()

    def check_structure(eng, model, hist):
        # position table
        for i, (m, k, _) in enumerate(nodes):
            got = eng.get_point(m, k)
            if i in model:
                if not np.array_equal(got, model[i]):
                    bad("get_point-last-position", f"node {(m, k)}: {got} expected {model[i]}", hist)
            elif not np.all(np.isinf(got)):
                bad("get_point-undefined-after-removal", f"node {(m, k)}: {got} expected inf", hist)
        # four views agree, no duplicates
        small_lists = []
        nstatic_listed = 0
        for lst in eng.defined_idxs:
            arr = np.asarray(lst, dtype=int)
            small_lists.append([int(i) for i in arr[arr < nn]])
            nstatic_listed += int(np.sum(arr >= nn))
        listed = [i for l in small_lists for i in l]
        if nstatic_listed != len(static) or len(eng.gndx_to_tree) != len(static) + len({k for k in range(nn) if k in eng.gndx_to_tree}):
            bad("views-consistent", f"static points listed {nstatic_listed} of {len(static)}; map size {len(eng.gndx_to_tree)}", hist, ["static"])
        tags = []
        if len(listed) != len(set(listed)):
            tags.append("duplicate-index")
        if sorted(set(listed)) != sorted(model) or tags:
            bad("views-consistent", f"defined_idxs {small_lists} vs positioned {sorted(model)}", hist, tags)
        g2t = {k: int(eng.gndx_to_tree[k]) for k in range(nn) if k in eng.gndx_to_tree}
        if sorted(g2t) != sorted(model):
            bad("views-consistent", f"gndx_to_tree keys {sorted(g2t)} vs positioned {sorted(model)}", hist, ["gndx_to_tree"])
        for gi, ti in g2t.items():
            if ti >= len(small_lists) or gi not in small_lists[ti]:
                bad("views-consistent", f"gndx_to_tree[{gi}]={ti} but tree lists {small_lists}", hist, ["gndx_to_tree"])
        # positions are copied back to molecules exactly as stored
        class _Mol:
            def __init__(self, keys):
                self.nodes = {k: {} for k in keys}
        mol_ids = sorted({m for m, _, _ in nodes})
        dummy = {m: _Mol([k for mm, k, _ in nodes if mm == m]) for m in mol_ids}
        try:
            # molecules are addressed by their position in the list: build a list long enough for the highest index
            lst = [dummy.get(i, _Mol([])) for i in range(max(mol_ids) + 1)]
            eng.update_positions_in_molecules(lst)
            for i, (m, k, _) in enumerate(nodes):
                got = lst[m].nodes[k].get("position")
                if i in model and (got is None or not np.array_equal(got, model[i])):
                    bad("positions-copied-back", f"node {(m, k)}: {got} expected {model[i]}", hist)
                if i not in model and got is not None and not np.all(np.isinf(got)):
                    bad("positions-copied-back", f"node {(m, k)}: {got} expected undefined", hist)
        except Exception as exc:  # noqa
            bad("positions-copied-back", f"{type(exc).__name__}: {exc}", hist, ["exc:" + type(exc).__name__])
        if len(eng.position_trees) != len(eng.defined_idxs):
            bad("views-consistent", "number of trees != number of index lists", hist)
        for tree, lst in zip(eng.position_trees, eng.defined_idxs):
            if tree.n != len(lst):
                bad("views-consistent", f"tree size {tree.n} != index list size {len(lst)}", hist, ["tree-size"])
            elif len(lst) and len(lst) < 50 and not np.array_equal(np.asarray(tree.data), eng.positions[lst] % box if False else eng.positions[lst]):
                bad("views-consistent", "tree data differ from positions of its index list", hist, ["tree-data"])

    nq = [0]

    def check_queries(eng, model, hist):
        for qi, probe in enumerate(probes):
            if not threshold_safe(model, static, probe, cut, box):
                continue
            for i, (m, k, _) in enumerate(nodes):
                same = [(j, kk) for j, (mm, kk, _) in enumerate(nodes) if mm == m and j != i]
                for r in range(0, len(same) + 1):
                    for sub in itertools.combinations(same, r):
                        excl_idx = {j for j, _ in sub}
                        # a node is never queried against itself in polyply; exclude it like the walk does
                        mdl = dict(model)
                        want = ref_force(mdl, static, probe, i, excl_idx, atypes, inter, cut, box)
                        got = eng.compute_force_point(probe.copy(), m, k, exclude=[kk for _, kk in sub])
                        nq[0] += 1
                        tags = []
                        # classifier used by known_findings: does any contributing pair cross the boundary?
                        crossing = any(np.linalg.norm(min_image(probe - p, box)) < cut and
                                       not np.allclose(min_image(probe - p, box), probe - p)
                                       for j, p in list(mdl.items()) if j not in excl_idx)
                        if crossing:
                            tags.append("pair-across-boundary")
                        if np.isscalar(want) or np.isscalar(got) and not isinstance(got, np.ndarray):
                            w_inf = np.isscalar(want) and np.isinf(want)
                            g_inf = np.isscalar(got) and np.isinf(got)
                            if w_inf != g_inf:
                                bad("force-inf-iff-closer-than-floor", f"probe {qi} node {(m, k)} excl {sorted(excl_idx)}: got {got} expected {want}", hist, tags)
                                continue
                            if w_inf:
                                continue
                        got = np.zeros(3) + got
                        if not np.allclose(got, want, rtol=1e-9, atol=1e-9 * max(1.0, float(np.abs(want).max()))):
                            bad("force-equals-minus-gradient", f"probe {qi}={probe.tolist()} node {(m, k)} excl {sorted(excl_idx)}: got {got.tolist()} expected {want.tolist()} positioned {sorted(mdl)}", hist, tags)

    def check_dist(eng, hist):
        allp = pts + probes + [pts[0] + box * np.array([1, 0, 0]), np.array([np.inf] * 3)]
        for a, b in itertools.product(range(len(allp)), repeat=2):
            pa, pb = allp[a], allp[b]
            d = eng.pbc_min_dist(pa, pb)
            if np.all(np.isinf(pa)) or np.all(np.isinf(pb)):
                if not np.isnan(d):
                    bad("min-dist-nan-iff-undefined", f"{pa} {pb} -> {d}", hist)
                continue
            if np.isnan(d):
                bad("min-dist-nan-iff-undefined", f"{pa} {pb} -> nan", hist)
                continue
            want = np.linalg.norm(min_image(pa - pb, box))
            if not abs(d - want) <= 1e-9:
                bad("min-dist-is-minimum-image", f"{pa} {pb}: {d} expected {want}", hist)
            if not abs(d - eng.pbc_min_dist(pb, pa)) <= 1e-12:
                bad("min-dist-symmetric", f"{pa} {pb}", hist)
            if d > np.linalg.norm(pa - pb) + 1e-12:
                bad("min-dist-le-direct", f"{pa} {pb}", hist)
            for ax in range(3):
                sh = np.zeros(3)
                sh[ax] = box[ax]
                if not abs(eng.pbc_min_dist(pa + sh, pb) - d) <= 1e-9:
                    bad("min-dist-periodic", f"{pa}+{sh} {pb}", hist)

    # ---- replay of one history
    if only_history is not None:
        eng, model = copy.deepcopy(eng0), {}
        hist = []
        for op in only_history:
            op = tuple(op)
            apply(eng, model, op)
            hist.append(list(op))
            check_structure(eng, model, list(hist))
        check_queries(eng, model, list(hist))
        return dict(evals=len(hist), keys=[], violations=viols, stats={})

    # ---- BFS to closure
    maxdepth = 7 if case["tier"] == "quick" else 12
    check_dist(eng0, [])
    root = canon(eng0, nn)
    nsh, sh = case.get("nshards", 1), case.get("shard", 0)

    def owned(key):
        return nsh == 1 or int(runner_h(key), 16) % nsh == sh
    seen = {root: []}
    own_states = 1 if owned(root) else 0
    frontier = [(eng0, {}, [])]
    transitions = 0
    depth = 0
    closed = True
    deep_check = 0
    while frontier:
        nxt = []
        for eng, model, hist in frontier:
            mine = owned(canon(eng, nn))
            for op in ops:
                e2, m2 = clone(eng), dict(model)
                try:
                    apply(e2, m2, op)
                except Exception as exc:  # noqa
                    bad("engine-operation-raises", f"{op}: {type(exc).__name__}: {exc}", hist + [list(op)], ["exc:" + type(exc).__name__])
                    continue
                h2 = hist + [list(op)]
                if mine:
                    transitions += 1
                    check_structure(e2, m2, h2)
                key = canon(e2, nn)
                if key not in seen:
                    seen[key] = h2
                    if owned(key):
                        own_states += 1
                        try:
                            check_queries(e2, m2, h2)
                        except Exception as exc:  # noqa
                            bad("engine-query-raises", f"{type(exc).__name__}: {exc}", h2, ["exc:" + type(exc).__name__])
                        deep_check += 1
                    nxt.append((e2, m2, h2))
        depth += 1
        frontier = nxt
        if depth >= maxdepth and frontier:
            closed = False
            break
    # differential: state reached by history must equal state reached by a fresh replay (deepcopy faithful)
    sample_hist = max(seen.values(), key=len)
    eng, model = make_engine(cfg)[0], {}
    for op in sample_hist:
        apply(eng, model, tuple(op))
    if canon(eng, nn) not in seen:
        bad("harness-deepcopy-faithful", "replayed history reaches a state the BFS did not", sample_hist, ["harness"])
    nontrivial = [f"{case['config']}:{runner_h(k)}" for k in seen if owned(k) and any(p[0] is not None for p in k[0])]
    multi = sum(1 for k in seen if owned(k) and len(k[1]) > 1)
    return dict(evals=transitions, keys=nontrivial, violations=viols,
                stats={"states": own_states, "transitions": transitions, "force_queries": nq[0],
                       "states_with_more_than_one_tree": multi, "closed_config_shards": int(closed),
                       "open_config_shards": int(not closed), "max_bfs_depth": [depth]},
                sample={"config": case["config"], "closed": closed, "depth": depth, "states": len(seen),
                        "longest_shortest_history": sample_hist})


def runner_h(k):
    import hashlib
    return hashlib.sha1(repr(k).encode()).hexdigest()[:12]


def finalize(agg, tier):
    probs = []
    if agg["stats"].get("states_with_more_than_one_tree", 0) == 0:
        probs.append("multi-tree branch never reached")
    if agg["stats"].get("force_queries", 0) == 0:
        probs.append("no force query compared")
    return probs
