"""C04 - supplied coordinates are preserved; only missing parts are built (E1 + fault schedules)."""
import itertools, json
import numpy as np
from .. import gc_harness as G, gc_oracle as O
from ..explore_choice import explore, Chooser
from ..runner import crash_violation

PID = "C04"
LEVEL = "model_checking"
RULE = ("systems of 3-4 molecules with single- and multi-atom residues x every split of the residue list into a supplied prefix "
        "(every prefix length, whole molecules and partial chains) given at atom level (-c) or as centres (-mc), and every three-way "
        "split prefix by -c / longer prefix by -mc / rest missing, and a molecule whose residue ids restart, x residue names "
        "named for rebuilding (-res: none / each name) x ignored molecule type at first / middle / last position of [ molecules ] "
        "(-ign) x every schedule of <=2 injected step / attempt failures and <=1 direction deviation. Oracle: atoms given with -c "
        "keep their input line coordinates exactly (memory and file), -mc residues have their centre of geometry on the given "
        "centre, the set of residues for which a position was generated equals exactly {missing} U {named in -res}, ignored "
        "molecules see no engine event and the others are built as without them, supplied positions survive every failed "
        "attempt. distinct_nontrivial = executions with a supplied part, a built part and >=1 failed attempt or rewind")
ASSUMPTIONS = ["the input structure lists the supplied residues in topology order, omitting residues named in -res (the format add_positions_from_file consumes)",
               "6 axis directions; failures injected as in C17"]
BUDGET = {"quick": 500, "thorough": 3000}

GRID = [[2.75, 2.75, 2.75], [3.25, 0.75, 1.75], [0.75, 3.25, 2.25], [2.25, 2.25, 0.75], [1.75, 0.25, 3.25], [3.25, 3.25, 3.25]]
BOX = [4.0, 4.0, 4.0]


def residue_list(sysdef):
    """[(mol idx, mol name, residue idx, resname, [atom names])] in topology order"""
    out, mi = [], 0
    for name, count in sysdef["molecules"]:
        tdef = G.get_typedef(sysdef, name)
        for _ in range(count):
            for r, (resname, names) in enumerate(tdef["res"]):
                out.append((mi, name, r, resname, names))
            mi += 1
    return out


def atom_list(sysdef):
    """[(mol idx, mol name, residue idx, resname, atom name)] in the order the topology (and a coordinate file) lists the atoms"""
    out, mi = [], 0
    for name, count in sysdef["molecules"]:
        tdef = G.get_typedef(sysdef, name)
        atoms, _ = G.type_atoms(tdef)
        rs = G.atom_residue_indices(tdef)
        for _ in range(count):
            for (idx, resid, resname, an), r in zip(atoms, rs):
                out.append((mi, name, r, resname, an))
            mi += 1
    return out


def resid_of(sysdef, name, r):
    tdef = G.get_typedef(sysdef, name)
    return (tdef.get("resids") or list(range(1, len(tdef["res"]) + 1)))[r]


def supplied_coords(reslist):
    """deterministic, well separated, non-lattice positions for every residue / atom (3 decimals, inside the box)"""
    centres, atoms = {}, {}
    for i, (mi, name, r, resname, names) in enumerate(reslist):
        c = np.array([0.313 + 0.55 * (i % 6), 0.427 + 0.61 * ((i // 6) % 6), 0.251 + 0.35 * r])
        for j, an in enumerate(names):
            atoms[(mi, r, an)] = np.round(c + np.array([0.11 * j, -0.07 * j, 0.05 * j]) - np.array([0.11, -0.07, 0.05]) * (len(names) - 1) / 2.0, 3)
        centres[(mi, r)] = np.round(c, 3)
    return centres, atoms


def configs(tier):
    base_mols = [
        [("CH3", 1), ("DI3", 1), ("W", 2)],
        [("W", 1), ("MIX3", 1), ("CH2", 1)],
        [("DUPB", 1), ("W", 1)],        # residue ids restart inside the molecule (di-block numbered per block)
        [("SOL", 2), ("CH2", 1), ("SOL", 1)],   # residues named SOL before and after a chain
        [("ILV", 1), ("W", 2), ("ILV", 1)],     # atoms of one residue not contiguous in the atom list, molecules after it
    ]
    for mols in base_mols:
        types = sorted({n for n, _ in mols})
        sysd = dict(types=types, molecules=mols, box=BOX, grid=GRID, kwargs=dict(nrewind=2, maxiter=3))
        rl = residue_list(sysd)
        resnames = sorted({x[3] for x in rl})
        for kind in ("c", "mc"):
            for k in range(0, len(rl) + 1):
                for res in [None] + resnames:
                    if res is not None and k == 0:
                        continue
                    if any(G.get_typedef(sysd, n).get("listing") for n in types):
                        # a coordinate file is a prefix of the atom list: with interleaved residues only whole molecules
                        # can be cut off
                        counted = [x for x in rl if x[3] != res]
                        if kind != "c" or (k < len(counted) and counted[k][2] != 0) or (res is not None and k < len(counted)):
                            continue
                    yield dict(sys=sysd, kind=kind, k=k, res=res, ign=None)
    # three-way splits: a prefix at atom level (-c), a longer prefix as centres (-mc, read from the first residue again), the
    # rest missing
    for mols in base_mols[:2]:
        types = sorted({n for n, _ in mols})
        sysd = dict(types=types, molecules=mols, box=BOX, grid=GRID, kwargs=dict(nrewind=2, maxiter=3))
        nres = len(residue_list(sysd))
        for k in range(1, nres):
            for m in range(1, nres - k + 1):
                yield dict(sys=sysd, kind="c+mc", k=k, m=m, res=None, ign=None)
        # ... and the centre file shorter than the atom-level one: it lists only the first j < k residues
        for k in range(2, nres + 1):
            for j in range(1, k):
                yield dict(sys=sysd, kind="c+mc", k=k, m=0, mc_upto=j, res=None, ign=None)
    # ignored molecule type at first / middle / last position, fully supplied with coordinates
    for mols in ([("W", 2), ("CH3", 1), ("CH2", 1)], [("CH3", 1), ("W", 2), ("CH2", 1)], [("CH3", 1), ("CH2", 1), ("W", 2)]):
        types = sorted({n for n, _ in mols})
        sysd = dict(types=types, molecules=mols, box=BOX, grid=GRID, kwargs=dict(nrewind=2, maxiter=3))
        for given in ("ignored-only", "all-but-last-molecule"):
            if given == "all-but-last-molecule" and mols[-1][0] == "W":
                continue    # an ignored molecule without coordinates cannot be written: outside the property's domain
            yield dict(sys=sysd, kind="c", k=None, res=None, ign="W", given=given)


def cases(tier):
    i = -1
    for i, cfg in enumerate(configs(tier)):
        cfg["tier"] = tier
        cfg["idx"] = i
        yield cfg
    yield dict(kind="staged", tier=tier, idx=i + 1)


def check_staged(cfg):
    """staged building from a script: gen_coords is called twice in one process with the same -c path, whose content has grown
    in between (k1 supplied residues, then k2 > k1); the second call gives what it gives in a fresh directory"""
    viols, evals, keys = [], 0, []
    base = [("CH3", 1), ("DI3", 1), ("W", 2)]
    sysd0 = dict(types=sorted({n for n, _ in base}), molecules=base, box=BOX, grid=GRID, kwargs=dict(nrewind=2, maxiter=3))
    nres = len(residue_list(sysd0))
    for kind in ("c", "mc"):
        for k1 in range(1, nres):
            for k2 in range(k1 + 1, nres + 1):
                s1, _ = materialise(dict(sys=sysd0, kind=kind, k=k1, res=None, ign=None))
                s2, _ = materialise(dict(sys=sysd0, kind=kind, k=k2, res=None, ign=None))
                evals += 1
                case1 = dict(kind="staged1", inp=kind, k1=k1, k2=k2)
                if cfg.get("kind") == "staged1" and (cfg["inp"], cfg["k1"], cfg["k2"]) != (kind, k1, k2):
                    continue
                with G.tempdir() as d:
                    r1 = G.run_gen_coords(s1, Chooser([]), workdir=d)
                    r2 = G.run_gen_coords(s2, Chooser([]), workdir=d)
                fresh = G.run_gen_coords(s2, Chooser([]))
                a = (repr(r2["exc"]), None if not r2["gro"] else r2["gro"][2])
                b = (repr(fresh["exc"]), None if not fresh["gro"] else fresh["gro"][2])
                if r1["exc"] is not None or fresh["exc"] is not None:
                    viols.append(dict(assertion="building-with-supplied-coordinates-succeeds", tags=["staged"], message=f"-{kind} k1={k1} k2={k2}: {r1['exc']!r} / {fresh['exc']!r}", case=case1, detail={}))
                elif a != b and len(viols) < 20:
                    viols.append(dict(assertion="supplied-atom-coordinates-exact", tags=["staged", "same-path-new-content"],
                                      message=f"second gen_coords call in one process, same -{kind} path now holding {k2} instead of {k1} residues: "
                                              f"{'exception ' + a[0] if a[0] != 'None' else 'the written structure differs from the one written in a fresh directory'}", case=case1, detail={}))
                keys.append(f"staged:{kind}:{k1}:{k2}")
    return dict(evals=evals, keys=keys, violations=viols, stats={"staged_runs": evals}, sample=dict(kind="staged", runs=evals))


def materialise(cfg):
    """returns (sysdef with input, expected dict)"""
    sysd = json.loads(json.dumps(cfg["sys"]))
    rl = residue_list(sysd)
    centres, atoms = supplied_coords(rl)
    ign = cfg.get("ign")
    if ign:
        sysd["kwargs"]["ignore"] = [ign]
    if cfg.get("given") == "ignored-only":
        # structure holds the leading residues up to and including the last ignored molecule? the format is a prefix of
        # the residue list, so only a prefix can be given: supply everything up to the last residue of the last ignored molecule
        last = max(i for i, x in enumerate(rl) if x[1] == ign)
        given_idx = list(range(last + 1))
    elif cfg.get("given") == "all-but-last-molecule":
        lastmol = rl[-1][0]
        given_idx = [i for i, x in enumerate(rl) if x[0] != lastmol]
    elif cfg["kind"] == "c+mc":
        given_idx = list(range(cfg["k"] + cfg["m"]))
    else:
        given_idx = []
        count = 0
        for i, x in enumerate(rl):
            if cfg["res"] is not None and x[3] == cfg["res"]:
                continue
            if count < cfg["k"]:
                given_idx.append(i)
                count += 1
    if cfg["res"] is not None:
        sysd["kwargs"]["build_res"] = [cfg["res"]]
    in_atoms, in_coords = [], []
    mc_atoms, mc_coords = [], []
    kind_of = {}
    for i in given_idx:
        mi, name, r, resname, names = rl[i]
        kind_of[(mi, r)] = "c" if (cfg["kind"] == "c" or (cfg["kind"] == "c+mc" and i < cfg["k"])) else "mc"
        if cfg["kind"] == "c+mc":
            if i < cfg["k"]:
                for an in names:
                    in_atoms.append((resid_of(sysd, name, r), resname, an))
                    in_coords.append(tuple(atoms[(mi, r, an)]))
                # the centre file is read from the first residue again: it lists the atom-level residues too, with the
                # centre of the supplied atoms
                if cfg.get("mc_upto") is None or i < cfg["mc_upto"]:
                    mc_atoms.append((resid_of(sysd, name, r), resname, names[0]))
                    mc_coords.append(tuple(np.round(np.mean([atoms[(mi, r, an)] for an in names], axis=0), 3)))
            else:
                mc_atoms.append((resid_of(sysd, name, r), resname, names[0]))
                mc_coords.append(tuple(centres[(mi, r)]))
        elif cfg["kind"] == "c":
            pass        # written below, in the order the topology lists the atoms
        else:
            in_atoms.append((resid_of(sysd, name, r), resname, names[0]))
            in_coords.append(tuple(centres[(mi, r)]))
    if cfg["kind"] == "c":
        given_res = {(rl[i][0], rl[i][2]) for i in given_idx}
        for mi, name, r, resname, an in atom_list(sysd):
            if (mi, r) in given_res:
                in_atoms.append((resid_of(sysd, name, r), resname, an))
                in_coords.append(tuple(atoms[(mi, r, an)]))
    if in_atoms:
        sysd["input"] = dict(kind="c" if cfg["kind"] == "c+mc" else cfg["kind"], atoms=in_atoms, coords=in_coords, box=BOX)
    if mc_atoms:
        sysd["input_mc"] = dict(kind="mc", atoms=mc_atoms, coords=mc_coords, box=BOX)
    exp = dict(kind_of=kind_of, given={(rl[i][0], rl[i][2]) for i in given_idx},
               built={(x[0], x[2]) for i, x in enumerate(rl) if i not in given_idx},
               centres=centres, atoms=atoms, rl=rl)
    return sysd, exp


def run_exec(sysd, chooser):
    return G.run_gen_coords(sysd, chooser, fault_steps=True, fault_attempts=True)


_STAGED = ("staged", "staged1")


def judge(cfg, sysd, exp, res, choices):
    viols = []
    case1 = dict(cfg, choices=choices)
    tags = []
    if cfg.get("ign"):
        tags.append("ignored-molecule-present")

    def bad(assertion, msg, t=()):
        if len(viols) < 12:
            viols.append(dict(assertion=assertion, tags=sorted(set(tags) | set(t)), message=msg + f" | cfg={json.dumps({k: cfg[k] for k in ('kind', 'k', 'm', 'mc_upto', 'res', 'ign') if k in cfg})} mols={cfg['sys']['molecules']} choices={choices}",
                              case=case1, detail={}))
    if res["divergence"]:
        bad("harness-replay-divergence", res["divergence"], ["harness"])
        return viols
    if res["horizon"]:
        return viols
    if res["exc"] is not None:
        v = crash_violation(res["exc"], case1, assertion="building-with-supplied-coordinates-succeeds", tags=tags)
        viols.append(v)
        return viols
    out, final = O.check_events(sysd, res, grid=sysd.get("grid"))
    for owner, assertion, msg, t in out:
        if owner == "C04":
            bad(assertion, msg, t)
    ign = cfg.get("ign")
    ignored_mols = {x[0] for x in exp["rl"] if x[1] == ign} if ign else set()
    # which residues were generated (engine add events that survived)
    generated = set()
    for e in res["events"]:
        if e[0] == "add":
            generated.add((e[1], e[2]))
    # engine molecule indices: with -ign the engine is built over the filtered molecule list, events carry whatever index
    # polyply used; the oracle speaks about topology indices
    want_built = {x for x in exp["built"] if x[0] not in ignored_mols}
    if generated != want_built:
        bad("only-missing-or-named-residues-generated",
            f"positions generated for {sorted(generated)} expected exactly {sorted(want_built)}")
    for e in res["events"]:
        if e[0] in ("add", "remove", "attempt") and e[1] in ignored_mols:
            bad("ignored-molecules-untouched", f"engine event {e[:3]} on ignored molecule")
    # final coordinates
    fa = res.get("final_atoms")
    if fa is None or res.get("gro") is None:
        bad("building-with-supplied-coordinates-succeeds", "no output written")
        return viols
    gro_atoms = res["gro"][0]
    flat = []
    ridx = {}      # (molecule, position of the atom in the molecule) -> residue index, from the type definition
    for (mi, name, r, resname, an) in atom_list(sysd):
        ridx.setdefault(mi, []).append((r, resname, an))
    for mi, mol in enumerate(fa):
        for k, (resid, resname, an, p) in enumerate(mol):
            if k >= len(ridx.get(mi, [])) or ridx[mi][k][1:] != (resname, an):
                bad("building-with-supplied-coordinates-succeeds", f"molecule {mi} atom {k}: {resname}:{an} does not follow the topology")
                return viols
            flat.append((mi, ridx[mi][k][0], an, p))
    if len(flat) != len(gro_atoms):
        bad("building-with-supplied-coordinates-succeeds", f"{len(gro_atoms)} atoms in file, {len(flat)} in memory")
        return viols
    by_res = {}
    for (mi, r, an, p), g in zip(flat, gro_atoms):
        by_res.setdefault((mi, r), []).append((an, p, g))
    for key in exp["given"]:
        mi, r = key
        if exp["kind_of"].get(key, cfg["kind"]) == "c":
            for an, p, g in by_res[key]:
                want = exp["atoms"][(mi, r, an)]
                if p is None or not np.array_equal(np.asarray(p), want):
                    bad("supplied-atom-coordinates-exact", f"atom {(mi, r, an)} in memory {p} supplied {want.tolist()}")
                if tuple(round(x, 3) for x in g[3]) != tuple(float(x) for x in want):
                    bad("supplied-atom-coordinates-exact", f"atom {(mi, r, an)} in file {g[3]} supplied {want.tolist()}")
        else:
            pts = np.array([p for an, p, g in by_res[key]])
            cog = pts.mean(axis=0)
            want = exp["centres"][key]
            if not np.abs(cog - want).max() <= 1e-9:
                bad("centre-only-residue-backmapped-around-its-centre", f"residue {key}: centre of geometry {cog.tolist()} given centre {want.tolist()}")
            fpts = np.array([g[3] for an, p, g in by_res[key]])
            if not np.abs(fpts.mean(axis=0) - want).max() <= 5e-4 * 1.0001 + 1e-9:
                bad("centre-only-residue-backmapped-around-its-centre", f"residue {key}: file centre {fpts.mean(axis=0).tolist()} given {want.tolist()}")
    for key in want_built:
        for an, p, g in by_res[key]:
            if p is None or not np.all(np.isfinite(p)):
                bad("missing-residues-built", f"atom {key + (an,)} has no finite coordinate")
    return viols


def ignored_do_not_disturb(cfg, sysd, exp, stats):
    """differential: the molecules that are built get exactly the positions they get when the ignored entries are not in
    the topology at all (same choices), wherever the ignored type stands in [ molecules ]"""
    viols = []
    ign = cfg["ign"]
    res_with = run_exec(sysd, Chooser([]))
    s2 = json.loads(json.dumps(sysd))
    s2["molecules"] = [m for m in s2["molecules"] if m[0] != ign]
    s2["types"] = sorted({m[0] for m in s2["molecules"]})
    s2["kwargs"].pop("ignore", None)
    rl2 = residue_list(s2)
    # the supplied coordinates of the remaining molecules, in their new order
    kept = [(x, i) for i, x in enumerate(exp["rl"]) if x[1] != ign]
    given_old = {(x[0], x[2]) for x in exp["rl"] if (x[0], x[2]) in exp["given"]}
    in_atoms, in_coords = [], []
    for (new, (old, _)) in zip(rl2, kept):
        if (old[0], old[2]) in given_old:
            for an in old[4]:
                in_atoms.append((old[2] + 1, old[3], an))
                in_coords.append(tuple(exp["atoms"][(old[0], old[2], an)]))
    # supplied residues must form a prefix of the reduced residue list, otherwise the comparison input cannot be written
    flags = [(old[0], old[2]) in given_old for (old, _) in kept]
    if flags != sorted(flags, reverse=True):
        return viols
    if in_atoms:
        s2["input"] = dict(kind="c", atoms=in_atoms, coords=in_coords, box=BOX)
    else:
        s2.pop("input", None)
    res_without = run_exec(s2, Chooser([]))
    stats["ignored_differential_runs"] = stats.get("ignored_differential_runs", 0) + 1
    if res_with["exc"] is not None or res_without["exc"] is not None:
        return viols          # crashes are reported by the main exploration
    def built(res, layout_old):
        out = []
        for e in res["events"]:
            if e[0] == "add":
                out.append((e[1], e[2], e[3]))
        return out
    newidx = {}
    k = 0
    for mi in sorted({x[0] for x in exp["rl"]}):
        if [x for x in exp["rl"] if x[0] == mi][0][1] != ign:
            newidx[mi] = k
            k += 1
    a = [(newidx[m], n, p) for m, n, p in built(res_with, None) if m in newidx]
    b = built(res_without, None)
    if a != b:
        viols.append(dict(assertion="ignored-molecules-do-not-disturb-the-others", tags=["ignored-molecule-present"],
                          message=f"placements with the ignored entries {a} differ from placements without them {b} | mols={cfg['sys']['molecules']} given={cfg.get('given')}",
                          case=dict(cfg, choices=[]), detail={}))
    return viols


def run_case(cfg):
    if cfg.get("kind") in _STAGED:
        return check_staged(cfg)
    sysd, exp = materialise(cfg)
    if "choices" in cfg:
        res = run_exec(sysd, Chooser(cfg["choices"]))
        return dict(evals=1, keys=[], violations=judge(cfg, sysd, exp, res, cfg["choices"]), stats={})
    F = 2 if cfg["tier"] == "quick" else 3
    bounds = {"fault": F, "vec": 1, "grid": 0, "*": F}
    evals, keys, viols, traces, ntrans = 0, set(), [], set(), 0
    stats = dict(executions=0, horizon_cuts=0, failed_attempts=0, rewinds=0, unowned_random_draws=0)
    if cfg.get("ign"):
        viols += ignored_do_not_disturb(cfg, sysd, exp, stats)
    for prefix, ch, res in explore(lambda c: run_exec(sysd, c), bounds, stats=stats, max_execs=1500):
        evals += 1
        ntrans += len(ch.trace)
        stats["executions"] += 1
        stats["unowned_random_draws"] += res["unowned"]
        stats["horizon_cuts"] += int(res["horizon"])
        nfail = sum(1 for e in res["events"] if e[0] == "attempt-result" and not e[2])
        nrew = sum(1 for e in res["events"] if e[0] == "rewind")
        stats["failed_attempts"] += nfail
        stats["rewinds"] += nrew
        v = judge(cfg, sysd, exp, res, ch.choices())
        if len(viols) < 30:
            viols += v
        tr = hash(repr(res["events"]))
        traces.add(tr)
        if exp["given"] and exp["built"] and (nfail or nrew):
            keys.add(f"{cfg['idx']}:{tr}")
    stats["states"] = len(traces)
    stats["transitions"] = ntrans
    return dict(evals=evals, keys=sorted(keys), violations=viols, stats=stats,
                sample={"molecules": cfg["sys"]["molecules"], "kind": cfg["kind"], "k": cfg["k"], "res": cfg["res"], "ign": cfg["ign"], "executions": evals})


def finalize(agg, tier):
    probs = []
    if agg["stats"].get("failed_attempts", 0) == 0:
        probs.append("no failed attempt with supplied coordinates was explored")
    if agg["stats"].get("unowned_random_draws", 0):
        probs.append("random draws outside the seams")
    return probs
