"""C03 - gen_coords writes one finite coordinate per topology atom, in topology order, with the right box."""
import itertools, json, math
import numpy as np
from .. import gc_harness as G, gc_oracle as O
from ..explore_choice import explore, Chooser
from ..runner import crash_violation
from .c04 import residue_list, supplied_coords, resid_of

PID = "C03"
LEVEL = "model_checking"
RULE = ("every [ molecules ] list of <=3 entries over 4 molecule types (single- and multi-atom residues, repeated names) with "
        "counts {1,2} x box source {-box, -dens 500, -dens 1000} x input {none, -c complete, -c partial prefix, -mc partial} "
        "x -res {none, one name} x {-grid file, default grid spacing}; every trajectory with <=1 direction deviation and <=1 "
        "start-point deviation (thorough <=2); plus chains whose rebuilt residues lie between supplied ones (-c + -res, rewind length 2/3) "
        "under every schedule of <=2 injected placement failures. Oracle: the .gro atom list equals the reference expansion of the topology "
        "(residue number, residue name, atom name, in order; count line), all coordinates finite, box line = requested box / "
        "box of the input structure when one is given / cubic box with L^3 * density = total mass * 1.660541 (5 decimals). "
        "distinct_nontrivial = distinct (system, options) with >=2 molecule types or a partial input")
ASSUMPTIONS = ["masses: 72.0 per atom, or (mass_mode mixed) explicit 72 / explicit 0 / no mass column with an atom-type mass of 36; direction bundle = 6 axis vectors"]
BUDGET = {"quick": 500, "thorough": 3000}

TYPES = ["W", "CH3", "DI3", "BR4"]
GRID = [[2.75, 2.75, 2.75], [3.25, 0.75, 1.75], [0.75, 3.25, 2.25], [2.25, 2.25, 0.75], [1.75, 0.25, 3.25], [3.25, 3.25, 3.25],
        [0.25, 0.25, 0.25], [1.25, 1.25, 1.25]]


def molecule_lists(tier):
    out = []
    for n in (1, 2, 3):
        for names in itertools.product(TYPES, repeat=n):
            if n == 3 and tier == "quick" and len(set(names)) == 3 and names[0] != "W":
                continue
            counts_opts = [(1,) * n, (2,) * n] if n > 1 else [(1,), (2,)]
            if n == 3 and tier == "quick":
                counts_opts = [(1, 2, 1)]
            if n == 2:
                counts_opts = [(1, 1), (2, 1), (1, 2)]
            for counts in counts_opts:
                out.append(list(zip(names, counts)))
    # a molecule whose residue ids restart (two blocks numbered separately)
    out += [[("DUPB", 1)], [("DUPB", 2)], [("W", 1), ("DUPB", 1)], [("DUPB", 1), ("CH3", 2)]]
    return out


def natoms(mols):
    return sum(c * sum(len(a) for _, a in G.TYPES[n]["res"]) for n, c in mols)


def cases(tier):
    lists = molecule_lists(tier)
    i = 0
    for mols in lists:
        # the box / input options rotate over the molecule lists so that every option value meets every list shape
        opts = [dict(boxsrc="box", inp=None, res=None, grid=True)]
        if len(mols) <= 2:
            opts += [dict(boxsrc="dens500", inp=None, res=None, grid=False),
                     dict(boxsrc="dens500", inp=None, res=None, grid=False, mass_mode="mixed"),
                     dict(boxsrc="dens1000", inp=None, res=None, grid=True, mass_mode="mixed"),
                     dict(boxsrc="dens1000", inp=None, res=None, grid=True),
                     dict(boxsrc="box", inp="c-complete", res=None, grid=True),
                     dict(boxsrc="box", inp="c-prefix", res=None, grid=True),
                     dict(boxsrc="none", inp="mc-prefix", res=None, grid=True),
                     dict(boxsrc="otherbox", inp="c-prefix", res="S", grid=True),
                     # the box comes with the centre file, although another -box / a density is given as well
                     dict(boxsrc="otherbox", inp="mc-prefix", res=None, grid=True)]
        else:
            opts += [dict(boxsrc="dens1000", inp="c-prefix", res=None, grid=True),
                     dict(boxsrc="dens500", inp=None, res=None, grid=True, mass_mode="mixed")]
        for o in opts:
            if o["boxsrc"].startswith("dens"):
                L = (G.total_mass(dict(molecules=mols, mass_mode=o.get("mass_mode"))) * 1.6605410 / float(o["boxsrc"][4:])) ** (1 / 3.0)
                if L < 0.7:
                    continue     # box smaller than twice the cut-off even for 0.15 nm residues
            yield dict(mols=mols, tier=tier, idx=i, **o)
            i += 1
    # rebuilt residues lying between supplied ones, with injected placement failures (rewinds that span a supplied residue)
    for mols in ([("CH4", 1)], [("CH4", 2)], [("MID7", 1)], [("W", 1), ("CH4", 1)]):
        for res in ("S", "B") if mols[-1][0] == "CH4" else ("S", "K"):
            for nrewind in (2, 3):
                yield dict(mols=mols, tier=tier, idx=i, boxsrc="box", inp="c-complete", res=res, grid=True, fault=2, nrewind=nrewind)
                i += 1
            # the same input together with a distance restraint between two residues (restraints look at the molecule's
            # growth tree before the walk starts), without injected failures
            yield dict(mols=mols, tier=tier, idx=i, boxsrc="box", inp="c-complete", res=res, grid=True, restr=True)
            i += 1
            # the same with the other residues supplied as centres only (-mc): abandoned attempts must keep them
            yield dict(mols=mols, tier=tier, idx=i, boxsrc="none", inp="mc-complete", res=res, grid=True, fault=2, nrewind=2)
            i += 1


    # an attempt budget of two (-mi 1): two failed attempts in a row exhaust it, the molecule has to be tried again with a
    # fresh budget, not skipped
    for mols in ([("CH4", 1)], [("W", 1), ("CH4", 2)], [("CH3", 2), ("W", 1)]):
        for inp in (None, "c-prefix"):
            yield dict(mols=mols, tier=tier, idx=i, boxsrc="box", inp=inp, res=None, grid=True, fault=2 if tier == "quick" else 3, nrewind=2, maxiter=1)
            i += 1


    yield dict(kind="history", tier=tier, idx=i)


def materialise(cfg):
    mols = [tuple(m) for m in cfg["mols"]]
    types = sorted({n for n, _ in mols})
    sysd = dict(types=types, molecules=mols, kwargs=dict(nrewind=cfg.get("nrewind", 2), maxiter=cfg.get("maxiter", 5)), mass_mode=cfg.get("mass_mode"))
    box = [4.0, 4.5, 5.0]
    if cfg["boxsrc"] in ("box", "otherbox"):
        sysd["box"] = box if cfg["boxsrc"] == "box" else [5.0, 5.0, 5.0]
    elif cfg["boxsrc"].startswith("dens"):
        sysd["density"] = float(cfg["boxsrc"][4:])
        # density boxes of these tiny systems are < 1 nm: residue sizes are scaled down so that the cut-off stays below
        # half the box, and the start grid is polyply's own (default spacing)
        sysd["volumes"] = {k: 0.15 for k in G.DEFAULT_VOLUMES}
    if cfg["grid"] and not cfg["boxsrc"].startswith("dens"):
        sysd["grid"] = GRID
    elif not cfg["boxsrc"].startswith("dens"):
        sysd["kwargs"]["grid_spacing"] = 1.0
    if cfg.get("restr"):
        last_type, last_count = mols[-1]
        nres = len(G.TYPES[last_type]["res"])
        first_idx = sum(c for _, c in mols[:-1])
        sysd["bld_extra"] = ["[ molecule ]", f"{last_type} {first_idx} {first_idx + last_count}", "[ distance_restraints ]", f"1 {nres - 1} 1.2 1.0"]
    rl = residue_list(sysd)
    exp_box = None
    if cfg["inp"]:
        centres, atoms = supplied_coords(rl)
        cand = [i for i, x in enumerate(rl) if not (cfg["res"] and x[3] == cfg["res"])]
        if cfg["inp"] in ("c-complete", "mc-complete"):
            given = cand
        else:
            given = cand[: max(1, len(cand) // 2)]
        if cfg["res"]:
            sysd["kwargs"]["build_res"] = [cfg["res"]]
        in_atoms, in_coords = [], []
        kind = "c" if cfg["inp"].startswith("c") else "mc"
        for i in given:
            mi, name, r, resname, names = rl[i]
            if kind == "c":
                for an in names:
                    in_atoms.append((resid_of(sysd, name, r), resname, an))
                    in_coords.append(tuple(atoms[(mi, r, an)]))
            else:
                in_atoms.append((resid_of(sysd, name, r), resname, names[0]))
                in_coords.append(tuple(centres[(mi, r)]))
        sysd["input"] = dict(kind=kind, atoms=in_atoms, coords=in_coords, box=box)
        exp_box = tuple(box)
    elif "box" in sysd:
        exp_box = tuple(sysd["box"])
    else:
        L = round((G.total_mass(sysd) * 1.6605410 / sysd["density"]) ** (1 / 3.0), 5)
        exp_box = (L, L, L)
    return sysd, exp_box


def run_exec(sysd, chooser, fault=False):
    return G.run_gen_coords(sysd, chooser, fault_steps=bool(fault), fault_attempts=bool(fault))


def judge(cfg, sysd, exp_box, res, choices):
    viols = []
    case1 = dict(cfg, choices=choices)
    info = f" | mols={cfg['mols']} opts={ {k: cfg.get(k) for k in ('boxsrc', 'inp', 'res', 'grid', 'mass_mode')} } choices={choices}"

    def bad(assertion, msg, tags=()):
        if len(viols) < 10:
            viols.append(dict(assertion=assertion, tags=list(tags), message=msg + info, case=case1, detail={}))
    if res["divergence"]:
        bad("harness-replay-divergence", res["divergence"], ["harness"])
        return viols
    if res["horizon"]:
        return viols
    if res["exc"] is not None:
        viols.append(crash_violation(res["exc"], case1, assertion="gen_coords-accepts-valid-input"))
        return viols
    if res["gro"] is None:
        bad("output-written", "no output structure")
        return viols
    atoms, box, lines = res["gro"]
    want = G.expand_atoms(sysd)
    if int(lines[1]) != len(want) or len(atoms) != len(want):
        bad("one-line-per-topology-atom", f"{len(atoms)} atoms (count line {lines[1].strip()}), topology has {len(want)}")
        return viols
    for i, ((resid, resname, an, xyz, ln), (mi, name, wresid, wresname, wan)) in enumerate(zip(atoms, want)):
        if (resid, resname, an) != (wresid, wresname, wan):
            bad("atoms-in-topology-order", f"line {i}: {resid}{resname} {an}, topology says {wresid}{wresname} {wan}")
            break
        if not all(math.isfinite(v) for v in xyz):
            bad("coordinates-finite", f"line {i}: {ln}")
            break
    fa = res.get("final_atoms") or []
    for mol in fa:
        for (resid, resname, an, p) in mol:
            if p is None or not np.all(np.isfinite(p)):
                bad("coordinates-finite", f"atom {resid}{resname}:{an} position {p} in memory")
    tol = 1e-4 if cfg["boxsrc"].startswith("dens") else 1e-5
    if len(box) != 3 or any(not abs(b - e) <= tol + 1e-9 for b, e in zip(box, exp_box)):
        bad("box-as-requested", f"box line {box}, expected {exp_box}", [f"boxsrc:{cfg['boxsrc']}", f"inp:{cfg['inp']}"])
    return viols


HIST_SYSTEMS = {
    "plain": dict(types=["CH4", "W"], molecules=[("CH4", 1), ("W", 2)], box=[4.0, 4.5, 5.0], grid=GRID, kwargs=dict(nrewind=2, maxiter=5)),
    "ligand+start": dict(types=["CH4", "W"], molecules=[("CH4", 1), ("W", 2)], box=[4.0, 4.5, 5.0], grid=GRID,
                         kwargs=dict(nrewind=2, maxiter=5, ligands=[["CH4#0-B#2", "W#1"]], start=["CH4-S#3"])),
    "cyclic": dict(types=["RING4", "W"], molecules=[("W", 1), ("RING4", 1)], box=[4.0, 4.5, 5.0], grid=GRID,
                   kwargs=dict(nrewind=2, maxiter=5, cycles=["RING4"], cycle_tol=0.3)),
    "split+ignore": dict(types=["MIX3", "W"], molecules=[("MIX3", 1), ("W", 1)], box=[4.0, 4.5, 5.0], grid=GRID,
                         volumes={"T0": 0.5, "T1": 0.5}, bld_extra=["[ volumes ]", "T0 0.5", "T1 0.5"],
                         kwargs=dict(nrewind=2, maxiter=5, split=["T:T0-x,z:T1-y"])),
    "rebuild-res": dict(types=["CH4"], molecules=[("CH4", 2)], box=[4.0, 4.5, 5.0], grid=GRID,
                        kwargs=dict(nrewind=2, maxiter=5, build_res=["B"])),
}


def check_history(cfg):
    """gen_coords called several times in one process (as from a script): every ordered pair (X, Y) of five option mixes is
    run as X, Y, X; the two runs of X write the same file and make the same placements"""
    viols, evals, keys = [], 0, []
    names = sorted(HIST_SYSTEMS)
    for x in names:
        for y in names:
            if x == y:
                continue
            outs = []
            for which in (x, y, x):
                res = G.run_gen_coords(json.loads(json.dumps(HIST_SYSTEMS[which])), Chooser([]))
                evals += 1
                outs.append((repr(res["exc"]), None if not res["gro"] else res["gro"][2], repr(res["events"])))
            case1 = dict(kind="history1", pair=[x, y])
            if cfg.get("pair") and cfg["pair"] != [x, y]:
                continue
            if outs[0][0] != "None":
                viols.append(dict(assertion="gen_coords-accepts-valid-input", tags=["history"], message=f"{x}: {outs[0][0]}", case=case1, detail={}))
            elif outs[0] != outs[2] and len(viols) < 20:
                what = "exception " + outs[2][0] if outs[2][0] != "None" else ("the written file differs" if outs[0][1] != outs[2][1] else "the placements differ")
                viols.append(dict(assertion="independent-of-earlier-calls", tags=["history"],
                                  message=f"gen_coords on '{x}', then on '{y}', then on '{x}' again in one process: second run of '{x}': {what}", case=case1, detail={}))
            keys.append(f"hist:{x}:{y}")
    return dict(evals=evals, keys=keys, violations=viols, stats={"history_runs": evals}, sample=dict(kind="history", pairs=len(keys)))


def run_case(cfg):
    if cfg.get("kind") in ("history", "history1"):
        return check_history(cfg)
    sysd, exp_box = materialise(cfg)
    if "choices" in cfg:
        res = run_exec(sysd, Chooser(cfg["choices"]), cfg.get("fault"))
        return dict(evals=1, keys=[], violations=judge(cfg, sysd, exp_box, res, cfg["choices"]), stats={})
    d = 1 if cfg["tier"] == "quick" else 2
    # start-point deviations only where the grid is the 8-point user grid (polyply's own grids have 100+ points)
    bounds = {"vec": d, "grid": 1 if "grid" in sysd else 0, "*": d}
    if cfg.get("fault"):
        bounds = {"fault": cfg["fault"], "vec": 0, "grid": 0, "*": cfg["fault"]}
    evals, keys, viols, traces, ntrans = 0, set(), [], set(), 0
    stats = dict(executions=0, horizon_cuts=0, unowned_random_draws=0)
    for prefix, ch, res in explore(lambda c: run_exec(sysd, c, cfg.get("fault")), bounds, stats=stats, max_execs=None):
        evals += 1
        ntrans += len(ch.trace)
        stats["executions"] += 1
        stats["unowned_random_draws"] += res["unowned"]
        stats["horizon_cuts"] += int(res["horizon"])
        v = judge(cfg, sysd, exp_box, res, ch.choices())
        if len(viols) < 20:
            viols += v
        traces.add(hash(repr(res["events"])))
    if len({n for n, _ in cfg["mols"]}) >= 2 or cfg["inp"] in ("c-prefix", "mc-prefix"):
        keys.add(json.dumps({k: cfg.get(k) for k in ("mols", "boxsrc", "inp", "res", "grid", "mass_mode")}, sort_keys=True))
    stats["states"] = len(traces)
    stats["transitions"] = ntrans
    return dict(evals=evals, keys=sorted(keys), violations=viols, stats=stats,
                sample={"molecules": cfg["mols"], "boxsrc": cfg["boxsrc"], "inp": cfg["inp"], "res": cfg["res"], "executions": evals})


def finalize(agg, tier):
    return ["random draws outside the seams"] if agg["stats"].get("unowned_random_draws", 0) else []
