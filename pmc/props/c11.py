"""C11 - generated .itp files are written and re-read to the same molecule (program level)."""
import json
from .. import ffmodel as F, gp_harness as H, gp_cases, ref_genparams as R
from ..runner import crash_violation

PID = "C11"
LEVEL = "exploration"
RULE = ("program-level: for force fields with no / every single link template (thorough: all ordered pairs) x every labelled "
        "connected residue graph n<=3 (quick; 4 thorough) x all resname assignments, gen_params is run on files in a temp dir; "
        "for every input the reference accepts the .itp must exist; it is then included in a generated .top, read with "
        "Topology.from_gmx_topfile and compared (atoms, interactions with numeric parameters and #ifdef/#ifndef guards, modulo "
        "the writer's symmetric atom order) with the molecule captured at write_molecule_itp; if no link is missing the "
        "recovered residue graph must be isomorphic (brute force) to the requested one with equal resname/resid. "
        "plus multi-residue from_itp blocks, and a residue type carrying every interaction section of the .itp dialect (two-function "
        "angles, multi-term + improper dihedrals, pairs, multi-atom exclusions, virtual_sites2/3/n, guarded constraints / angles / "
        "position restraints) in all pairs of sections x chains of 1-3. non-trivial = molecule with >=1 inter-residue interaction and >=1 guarded interaction or >=2 residues")
ASSUMPTIONS = ["dependency versions: the ones installed here (vermouth 0.15.0, networkx 3.6.1), both inside the declared ranges",
               "meta keys the .itp format cannot express (version, group, edge) are not compared"]
BUDGET = {"quick": 420, "thorough": 4000}

SYMMETRIC = {"bonds", "angles", "dihedrals", "constraints", "pairs", "exclusions", "impropers"}


def cases(tier):
    nmax = 3 if tier == "quick" else 4
    variants = [v for v in gp_cases.ff_variants(tier) if len(v["links"]) <= (1 if tier == "quick" else 2)]
    for variant in variants:
        for n in range(1, nmax + 1):
            yield {"variant": variant, "n": n, "tier": tier}
    if tier == "quick":
        for lk in (["bb"], ["ang3", "bb"], ["circ", "bb"], ["rm", "bb"]):
            yield {"variant": {"links": lk}, "n": 4, "tier": tier}
    yield {"kind": "fromitp", "tier": tier}
    yield {"kind": "sections", "tier": tier}
    yield {"kind": "dsdna", "tier": tier}


def canon_inter(sec, atoms, params, guard):
    atoms = list(atoms)
    if sec in SYMMETRIC and atoms[::-1] < atoms:
        atoms = atoms[::-1]

    def num(p):
        try:
            return round(float(p), 9)
        except (TypeError, ValueError):
            return str(p)
    return (sec if sec != "impropers" else "dihedrals", tuple(atoms), tuple(num(p) for p in params), guard)


def guard_of(meta):
    for g in ("ifdef", "ifndef"):
        if g in meta:
            return (g, meta[g])
    return None


def digest_for_roundtrip(dg):
    keys = [a["key"] for a in dg["atoms"]]
    pos = {k: i for i, k in enumerate(keys)}
    atoms = [(a["atomname"], a["atype"], a["resname"], a["resid"],
              None if a["charge"] is None else round(float(a["charge"]), 9),
              None if a["mass"] is None else round(float(a["mass"]), 9)) for a in dg["atoms"]]
    inter = sorted(canon_inter(sec, [pos[a] for a in at], params, guard_of(meta))
                   for sec, lst in dg["inter"].items() for at, params, meta in lst)
    return atoms, inter


def iso_labelled(n, edges_a, labels_a, nodes_b, edges_b, labels_b):
    import itertools
    if len(nodes_b) != n:
        return False
    ea = {frozenset(e) for e in edges_a}
    eb = {frozenset(e) for e in edges_b}
    if len(ea) != len(eb):
        return False
    for perm in itertools.permutations(nodes_b):
        if all(labels_a[i] == labels_b[perm[i]] for i in range(n)) and \
                {frozenset((perm[a], perm[b])) for a, b in edges_a} == eb:
            return True
    return False


def run_one(variant, spec, rg, stats):
    viols = []
    case1 = {"variant": variant, "rg": rg, "single": True}

    def bad(assertion, msg, tags=()):
        viols.append(dict(assertion=assertion, tags=list(tags), message=msg + f" | links={variant['links']} rg={json.dumps(rg)}",
                          case=case1, detail={}))
    try:
        exp = R.build(spec, rg)
    except R.Unspecified:
        stats["skipped_unspecified"] = stats.get("skipped_unspecified", 0) + 1
        return viols, False
    except R.Rejected:
        return viols, False
    with H.tempdir() as d:
        r = H.run_gen_params(d, [("ff.ff", F.render_ff(spec))], graph=H.build_resgraph(rg))
        if r["exc"] is not None:
            v = crash_violation(r["exc"], case1, assertion="itp-written-for-accepted-input")
            viols.append(v)
            return viols, False
        if not r["itp_path"].exists() or r["captured"] is None:
            bad("itp-written-for-accepted-input", "gen_params returned without writing the output file")
            return viols, False
        if r["pending_after"]:
            bad("itp-written-for-accepted-input", f"writes still pending after return: {r['pending_after']}")
        types = {a["atype"] for a in r["captured"]["atoms"]}
        try:
            top = H.read_back(d, "out.itp", types)
        except Exception as exc:  # noqa
            viols.append(crash_violation(exc, case1, assertion="written-itp-readable"))
            return viols, False
        if len(top.molecules) != 1:
            bad("written-itp-readable", f"{len(top.molecules)} molecules read back")
            return viols, False
        mm = top.molecules[0]
        got_atoms, got_inter = digest_for_roundtrip(H.mol_digest(mm.molecule))
        want_atoms, want_inter = digest_for_roundtrip(r["captured"])
        if got_atoms != want_atoms:
            diff = [(i, a, b) for i, (a, b) in enumerate(zip(got_atoms, want_atoms)) if a != b][:3]
            bad("reread-atoms-equal", f"atoms differ (read, built): {diff} n={len(got_atoms)}/{len(want_atoms)}")
        if got_inter != want_inter:
            extra = [x for x in got_inter if x not in want_inter][:3]
            lost = [x for x in want_inter if x not in got_inter][:3]
            bad("reread-interactions-equal", f"only in file: {extra}; only in built molecule: {lost}")
        # residue pairs joined by a bond or constraint in the built molecule: what a reader can recover from the file
        owner = {p: node for node, pl in exp["res_atoms"].items() for p in pl}
        bonded = set()
        for (sec, at, ver) in exp["inter"]:
            if sec in ("bonds", "constraints"):
                for a, b in zip(at[:-1], at[1:]):
                    if owner[a] != owner[b]:
                        bonded.add(frozenset((owner[a], owner[b])))
        requested = {frozenset(e) for e in rg["edges"]}
        # the program's own view: gen_params warned about no missing link for a residue edge -> the file must carry that
        # edge, unless the only thing joining the two residues (per the reference) is something an .itp cannot express as a
        # bond ([ edges ]-only links, pairs, ...)
        import re as _re
        warned = set()
        for lvl, msg, _ in r["logs"]:
            m = _re.search(r"Missing a link between residue (\S+) (\S+) and residue (\S+) (\S+)\.", msg)
            if m and lvl == "WARNING":
                warned.add(frozenset((int(m.group(1)), int(m.group(3)))))
        ref_atom_edges = set()
        for e in exp["edges"]:
            e = tuple(e)
            if len(e) == 2 and owner[e[0]] != owner[e[1]]:
                ref_atom_edges.add(frozenset((owner[e[0]], owner[e[1]])))
        resid_nodes = {}
        for k in mm.nodes:
            resid_nodes[mm.nodes[k].get("resid")] = k
        file_edges = {frozenset((mm.nodes[a].get("resid"), mm.nodes[b].get("resid"))) for a, b in mm.edges}
        for e in requested:
            a, b = tuple(e)
            re_ = frozenset((rg["resids"][a], rg["resids"][b]))
            non_bond_only = e in ref_atom_edges and e not in bonded
            if re_ not in warned and not non_bond_only and re_ not in file_edges:
                bad("no-warning-implies-edge-in-file", f"residues {sorted(re_)}: no missing-link warning, but the residue graph read back has no edge there "
                    f"(edges in file {sorted(map(sorted, file_edges))})")
        if not exp["missing"] and bonded == requested:
            stats["residue_graph_compared"] = stats.get("residue_graph_compared", 0) + 1
            nodes_b = list(mm.nodes)
            labels_b = {k: (mm.nodes[k].get("resname"), mm.nodes[k].get("resid")) for k in nodes_b}
            labels_a = {i: (rg["resnames"][i], rg["resids"][i]) for i in range(rg["n"])}
            if not iso_labelled(rg["n"], rg["edges"], labels_a, nodes_b, [tuple(e) for e in mm.edges], labels_b):
                bad("residue-graph-recovered", f"read back residues {sorted(labels_b.values())} edges {sorted(map(sorted, mm.edges))}")
    nontrivial = rg["n"] >= 2
    return viols, nontrivial


def check_fromitp(case):
    """multi-residue blocks given as an .itp input file, residue graph from a .json file with from_itp labels"""
    import itertools
    from .c01_extra import M_ITP
    viols, evals, keys = [], 0, []
    single = case.get("one")
    for k in (1, 2, 3):
        for seq in itertools.product("ABM", repeat=k):
            if "M" not in seq:
                continue
            combos = [(1, 1), (4, 1)] + ([(3, 3)] if seq[0] == "M" and seq.count("M") == 1 else [])
            for start, base in combos:
                if single and single != [list(seq), start, base]:
                    continue
                residues = []
                for tok in seq:
                    residues += [("MA", True), ("MB", True)] if tok == "M" else [(tok, False)]
                n = len(residues)
                rg = dict(n=n, edges=[[i, i + 1] for i in range(n - 1)], resids=[start + i for i in range(n)],
                          resnames=[r[0] for r in residues], node_attrs={str(i): {"from_itp": "M"} for i, r in enumerate(residues) if r[1]})
                itp = M_ITP.replace(" 1 MA ", f" {base} MA ").replace(" 2 MB ", f" {base + 1} MB ") + \
                    F.render_block_itp("A", F.BLOCKS["A"], dangling={"bonds": [((1, 3), ("1", "0.40", "500"), {})]}) + F.render_block_itp("B", F.BLOCKS["B"])
                evals += 1
                case1 = dict(kind="fromitp", tier=case["tier"], one=[list(seq), start, base])
                with H.tempdir() as d:
                    r = H.run_gen_params(d, [("in.itp", itp)], graph=H.build_resgraph(rg))
                    if r["exc"] is not None:
                        viols.append(crash_violation(r["exc"], case1, assertion="itp-written-for-accepted-input"))
                        continue
                    try:
                        top = H.read_back(d, "out.itp", {a["atype"] for a in r["captured"]["atoms"]})
                    except Exception as exc:  # noqa
                        viols.append(crash_violation(exc, case1, assertion="written-itp-readable"))
                        continue
                    mm = top.molecules[0]
                    if digest_for_roundtrip(H.mol_digest(mm.molecule)) != digest_for_roundtrip(r["captured"]):
                        viols.append(dict(assertion="reread-atoms-equal", tags=["from_itp"], message=f"sequence {seq} start {start} base {base}: file differs from built molecule", case=case1, detail={}))
                    # the program's own view: a residue edge it did not warn about must be in the residue graph read back
                    import re as _re
                    warned = set()
                    for lvl, msg, _ in r["logs"]:
                        m_ = _re.search(r"Missing a link between residue (\S+) (\S+) and residue (\S+) (\S+)\.", msg)
                        if m_ and lvl == "WARNING":
                            warned.add(frozenset((int(m_.group(1)), int(m_.group(3)))))
                    file_edges = {frozenset((mm.nodes[a].get("resid"), mm.nodes[b].get("resid"))) for a, b in mm.edges}
                    for i in range(n - 1):
                        e = frozenset((rg["resids"][i], rg["resids"][i + 1]))
                        if e not in warned and e not in file_edges and len(viols) < 20:
                            viols.append(dict(assertion="no-warning-implies-edge-in-file", tags=["from_itp"],
                                              message=f"sequence {seq} start {start}: residues {sorted(e)} requested as connected, no missing-link warning, "
                                                      f"but the file has no bond between them (edges read back {sorted(map(sorted, file_edges))})", case=case1, detail={}))
                    got = sorted((mm.nodes[x].get("resname"), mm.nodes[x].get("resid")) for x in mm.nodes)
                    want = sorted((rg["resnames"][i], rg["resids"][i]) for i in range(n))
                    if got != want:
                        viols.append(dict(assertion="residue-graph-recovered", tags=["from_itp"],
                                          message=f"sequence {seq} start {start} block numbering from {base}: residues read back {got} requested {want}", case=case1, detail={}))
                keys.append(json.dumps([seq, start, base]))
    return dict(evals=evals, keys=keys, violations=viols[:20], stats={"inputs_fromitp": evals}, sample={"kind": "fromitp", "inputs": evals})


SEC_HEAD = """[ moleculetype ]
R 1
[ atoms ]
1 P1 1 R A 1 0.0 72.0
2 P2 1 R B 2 0.5 36.0
3 P3 1 R C 3 -0.5 36.0
4 P4 1 R D 4 0.0 12.0
5 VS 1 R V 5 0.0 0.0
6 VS 1 R W 6 0.0 0.0
[ bonds ]
1 2 1 0.30 1000
2 3 1 0.31 1100
3 4 1 0.32 1200
1 7 1 0.40 500
"""
SEC_OPTIONAL = {
    "constraints-ifndef": "[ constraints ]\n#ifndef FLEXIBLE\n1 3 1 0.45\n#endif\n",
    "angles-two-functions": "[ angles ]\n1 2 3 2 120 50\n2 3 4 10 100 20\n",
    "dihedrals-multi-and-improper": "[ dihedrals ]\n1 2 3 4 9 0 1.5 1\n1 2 3 4 9 180 2.5 2\n1 2 3 4 9 60 3.5 3\n1 2 3 4 9 90 4.5 4\n2 1 3 4 2 35 100\n",
    "pairs": "[ pairs ]\n1 4 1\n",
    "exclusions-multi": "[ exclusions ]\n1 3 4\n2 4\n",
    "virtual_sites2": "[ virtual_sites2 ]\n5 1 2 1 0.5\n",
    "virtual_sites3": "[ virtual_sites3 ]\n6 1 2 3 1 0.2 0.3\n",
    "virtual_sitesn": "[ virtual_sitesn ]\n6 1 1 2 3 4\n",
    "posres-ifdef": "[ position_restraints ]\n#ifdef POSRES\n1 1 1000 1000 1000\n#endif\n",
    "angles-ifdef": "[ angles ]\n#ifdef STIFF\n1 2 4 1 90 500\n#endif\n",
    # restraint and rarely used sections of the dialect (the reader lists them all as sub-sections of a molecule type)
    "dihedral_restraints": "[ dihedral_restraints ]\n1 2 3 4 1 120 10 500\n",
    "distance_restraints": "[ distance_restraints ]\n1 4 1 0 1 0.3 0.4 0.5 1.0\n",
    "angle_restraints": "[ angle_restraints ]\n1 2 3 4 1 90 100 1\n",
    "angle_restraints_z": "[ angle_restraints_z ]\n1 2 1 90 100 1\n",
    "orientation_restraints": "[ orientation_restraints ]\n1 2 1 1 1 3 6.0 1.0 1.0\n",
    "pairs_nb": "[ pairs_nb ]\n1 4 1 0.0 0.0 0.3 0.5\n",
    "virtual_sites4": "[ virtual_sites4 ]\n6 1 2 3 4 2 0.1 0.2 0.3\n",
    "settles": "[ settles ]\n1 1 0.1 0.16\n",
}
SAME_SITE = {"virtual_sites3", "virtual_sitesn", "virtual_sites4"}


def check_sections(case):
    """a residue type carrying every interaction section polyply's .itp dialect knows, in all pairs of optional sections, built
    into chains of 1-3 residues: the written file read back equals the molecule that was built"""
    import itertools
    viols, evals, keys = [], 0, []
    names = sorted(SEC_OPTIONAL)
    combos = [()] + [(a,) for a in names] + list(itertools.combinations(names, 2)) + [tuple(names)]
    for combo in combos:
        if len(SAME_SITE & set(combo)) == 2 and len(combo) == 2:
            continue        # both construct the same site
        if case.get("one") and list(combo) != case["one"]:
            continue
        keep_site = sorted(SAME_SITE & set(combo))[:1]
        use = [c for c in combo if c not in SAME_SITE or c in keep_site]
        itp = SEC_HEAD + "".join(SEC_OPTIONAL[c] for c in use)
        for n in (1, 2, 3):
            rg = dict(n=n, edges=[[i, i + 1] for i in range(n - 1)], resids=[1 + i for i in range(n)], resnames=["R"] * n)
            evals += 1
            case1 = dict(kind="sections", tier=case["tier"], one=list(combo))
            with H.tempdir() as d:
                r = H.run_gen_params(d, [("in.itp", itp)], graph=H.build_resgraph(rg))
                if r["exc"] is not None:
                    viols.append(crash_violation(r["exc"], case1, assertion="itp-written-for-accepted-input", tags=["sections"]))
                    continue
                try:
                    top = H.read_back(d, "out.itp", {a["atype"] for a in r["captured"]["atoms"]})
                except Exception as exc:  # noqa
                    viols.append(crash_violation(exc, case1, assertion="written-itp-readable", tags=["sections"]))
                    continue
                a = digest_for_roundtrip(H.mol_digest(top.molecules[0].molecule))
                b = digest_for_roundtrip(r["captured"])
                if a[0] != b[0] and len(viols) < 20:
                    viols.append(dict(assertion="reread-atoms-equal", tags=["sections"], message=f"sections {use} n={n}: atoms differ", case=case1, detail={}))
                if a[1] != b[1] and len(viols) < 20:
                    extra = [x for x in a[1] if x not in b[1]][:3]
                    lost = [x for x in b[1] if x not in a[1]][:3]
                    viols.append(dict(assertion="reread-interactions-equal", tags=["sections"],
                                      message=f"sections {use} n={n}: only in file {extra}; only in built molecule {lost}", case=case1, detail={}))
                want_inter = sum(len(SEC_OPTIONAL[c].strip().splitlines()) - 1 - 2 * SEC_OPTIONAL[c].count("#endif") for c in use)
                nb = sum(1 for x in b[1] if x[0] != "bonds")
                if nb != want_inter * n and len(viols) < 20:
                    viols.append(dict(assertion="reread-interactions-equal", tags=["sections", "built-molecule-incomplete"],
                                      message=f"sections {use} n={n}: built molecule has {nb} non-bond interactions, the blocks define {want_inter * n}", case=case1, detail={}))
        keys.append(json.dumps(list(combo)))
    return dict(evals=evals, keys=keys, violations=viols[:20], stats={"inputs_sections": evals}, sample={"kind": "sections", "inputs": evals})


DNA_NAMES = ["DA", "DT", "DG", "DC", "DA5", "DT5", "DG5", "DC5", "DA3", "DT3", "DG3", "DC3"]


def check_dsdna(case):
    """circular and linear DNA sequences completed to double strands (-dsdna): when no link is reported missing the residue
    graph recovered from the written file is the requested one - two rings (circular) or two chains of n residues"""
    import itertools, re
    viols, evals, keys = [], 0, []
    blocks = {nm: dict(nrexcl=1, atoms=[("BB", "D" + nm[1:], 0.0, 72.0, 1)], inter={}) for nm in DNA_NAMES}
    links = [dict(resname=DNA_NAMES, inter={"bonds": [F.I(["BB", "+BB"], ["1", "0.3", "50"])]}),
             dict(resname=DNA_NAMES, atoms={"BB": {}, ">BB": {}}, inter={"bonds": [F.I(["BB", ">BB"], ["1", "0.35", "10000"], {"edge": False, "group": "circle"})]},
                  edges=[("BB", ">BB", {"linktype": "circle"})])]
    ff_txt = F.render_ff(dict(blocks=blocks, links=links, mods={}))
    warn = re.compile(r"Missing a link between residue")
    for n in (3, 4, 5):
        for seq in ("ACGTA"[:n], "GGCAT"[:n]):
            for circ in (True, False):
                evals += 1
                case1 = dict(kind="dsdna1", seq=seq, circ=circ)
                with H.tempdir() as d:
                    r = H.run_gen_params(d, [("ff.ff", ff_txt)], seq_file_text=("s.ig", f"; DNA\nT1\n{seq}{2 if circ else 1}\n"), dsdna=True)
                    if r["exc"] is not None:
                        viols.append(crash_violation(r["exc"], case1, assertion="itp-written-for-accepted-input", tags=["dsdna"]))
                        continue
                    itp = H.read_itp_plain(r["itp_path"])
                missing = [m for lvl, m, _ in r["logs"] if warn.search(m)]
                res_of = {a["idx"]: a["resid"] for a in itp["atoms"]}
                got = {tuple(sorted((res_of[int(t[0])], res_of[int(t[1])]))) for t, g in itp["inter"].get("bonds", []) if res_of[int(t[0])] != res_of[int(t[1])]}
                want = {(k, k + 1) for k in range(1, n)} | {(n + k, n + k + 1) for k in range(1, n)}
                if circ:
                    want |= {(1, n), (n + 1, 2 * n)}
                if len(itp["atoms"]) != 2 * n:
                    viols.append(dict(assertion="reread-atoms-equal", tags=["dsdna"], message=f"{seq} circular={circ}: {len(itp['atoms'])} atoms for 2 x {n} residues", case=case1, detail={}))
                elif not missing and got != want and len(viols) < 20:
                    viols.append(dict(assertion="residue-graph-recovered-when-nothing-missing", tags=["dsdna"],
                                      message=f"{seq} circular={circ} -dsdna: no link reported missing, residue pairs bonded in the file {sorted(got)}, requested {sorted(want)}", case=case1, detail={}))
                keys.append(f"dsdna:{seq}:{circ}")
    return dict(evals=evals, keys=keys, violations=viols, stats={"inputs_dsdna": evals}, sample=dict(kind="dsdna", inputs=evals))


def run_case(case):
    if case.get("kind") in ("dsdna", "dsdna1"):
        out = check_dsdna(case)
        if case["kind"] == "dsdna1":
            out["violations"] = [v for v in out["violations"] if v["case"]["seq"] == case["seq"] and v["case"]["circ"] == case["circ"]]
        return out
    if case.get("kind") == "fromitp":
        return check_fromitp(case)
    if case.get("kind") == "sections":
        return check_sections(case)
    variant = case["variant"]
    spec = gp_cases.make_spec(variant)
    stats = {}
    if case.get("single"):
        v, _ = run_one(variant, spec, case["rg"], stats)
        return dict(evals=1, keys=[], violations=v, stats=stats)
    evals, keys, viols = 0, [], []
    for rg in gp_cases.graphs_for(variant, case["n"], case["tier"], starts=(1,) if case["n"] >= 3 else (1, 5)):
        v, nt = run_one(variant, spec, rg, stats)
        evals += 1
        if len(viols) < 20:
            viols += v
        if nt:
            keys.append(json.dumps([variant["links"], rg], sort_keys=True))
    return dict(evals=evals, keys=keys, violations=viols, stats=stats,
                sample={"links": variant["links"], "n": case["n"], "inputs": evals})
