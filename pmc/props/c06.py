"""C06 - backmapping places rigid, centred, same-handed copies of the residue template (E1, optimiser seam)."""
import itertools, json, math
import numpy as np
from .. import gc_harness as G
from ..explore_choice import explore, Chooser
from ..runner import crash_violation

PID = "C06"
LEVEL = "model_checking"
RULE = ("residue types with 1, 2, 3 (planar), 4 (chiral, user template) and 5 atoms and a residue with a virtual site, in "
        "linear and branched molecules so that residues have 0-3 bonded neighbours, each neighbour built before or after, incl. molecules whose residue ids restart and a generated 3-atom template in 2-3 molecules; "
        "backmapping factor {0, 0.4, 1.0, 1.5, 2.0}; with and without pre-existing atom coordinates for a prefix; the optimiser answer at each "
        "residue is chosen from the real L-BFGS answer (default) and all 216 angle triples over {0, pi/2, pi, 3pi/2, 1.0, 2.5} "
        "(<=1 deviating residue per execution; thorough <=2 over a 27-triple subset). Oracle per backmapped residue: centre of "
        "geometry == residue position (1e-9); Gram matrix of (atoms - centre)/factor == Gram matrix of the template vectors taken "
        "by atom name (rigid); signed volume of every atom quadruple keeps its sign (proper rotation); residues that are not to "
        "be backmapped keep their coordinates. distinct_nontrivial = (system, residue, angle triple) with >= 3 atoms")
ASSUMPTIONS = ["templates are taken as polyply holds them (their construction is C15's subject)",
               "optimiser answers are a finite set of angle triples plus the real optimiser's own answer"]
BUDGET = {"quick": 420, "thorough": 2400}

ANG = [0.0, math.pi / 2, math.pi, 3 * math.pi / 2, 1.0, 2.5]
ANGLES_Q = [list(t) for t in itertools.product(ANG, repeat=3)]
ANGLES_T = [list(t) for t in itertools.product([0.0, math.pi / 2, 2.5], repeat=3)]

TYPEDEFS = {
    "LIN": dict(res=[("R1", ["a"]), ("R3", ["p", "q", "r"]), ("R4", ["c", "x", "y", "z"]), ("R2", ["m", "n"])],
                edges=[(0, 1), (1, 2), (2, 3)]),
    "STAR": dict(res=[("R4", ["c", "x", "y", "z"]), ("R2", ["m", "n"]), ("R3", ["p", "q", "r"]), ("R1", ["a"])],
                 edges=[(0, 1), (0, 2), (0, 3)]),
    "HUB": dict(res=[("R2", ["m", "n"]), ("R5", ["c", "x", "y", "z", "w"]), ("R2", ["m", "n"]), ("R4", ["c", "x", "y", "z"])],
                edges=[(0, 1), (1, 2), (1, 3)]),
    # equivalent residues listing their atoms in different orders (bonds given by name: c-x, x-y, y-z)
    "PERM": dict(res=[("R4", ["c", "x", "y", "z"]), ("R4", ["z", "x", "c", "y"]), ("R4", ["y", "z", "x", "c"])],
                 edges=[(0, 1), (1, 2)], intra={"c": ["x"], "x": ["y"], "y": ["z"]}, anchor="c"),
    "SOLO": dict(res=[("R4", ["c", "x", "y", "z"])], edges=[]),
    # residue ids restart inside the molecule (blocks numbered separately / neighbours sharing an id, told apart by name)
    "DUPA": dict(res=[("R3", ["p", "q", "r"]), ("R3", ["p", "q", "r"]), ("R4", ["c", "x", "y", "z"]), ("R4", ["c", "x", "y", "z"])],
                 resids=[1, 2, 1, 2], edges=[(0, 1), (1, 2), (2, 3)]),
    "DUPN": dict(res=[("R3", ["p", "q", "r"]), ("R4", ["c", "x", "y", "z"]), ("R3", ["p", "q", "r"]), ("R4", ["c", "x", "y", "z"])],
                 resids=[1, 1, 2, 2], edges=[(0, 1), (1, 2), (2, 3)]),
    # G3 has no user template: polyply generates one (bonds only, so the bending angle is whatever the optimisation finds)
    "GEN": dict(res=[("G3", ["u", "v", "w"]), ("G3", ["u", "v", "w"]), ("R1", ["a"])], edges=[(0, 1), (1, 2)]),
}
TEMPLATES = """[ template ]
resname R4
[ atoms ]
c P 0.00 0.00 0.00
x P 0.20 0.00 0.00
y P 0.00 0.30 0.00
z P 0.05 0.05 0.40
[ bonds ]
c x
x y
y z
[ template ]
resname R5
[ atoms ]
w P 0.15 0.20 -0.30
z P 0.00 -0.05 0.35
c P 0.00 0.00 0.00
y P -0.10 0.30 0.00
x P 0.25 0.00 0.05
[ bonds ]
c x
x y
y z
z w
[ template ]
resname R3
[ atoms ]
p P 0.00 0.00 0.00
q P 0.30 0.00 0.00
r P 0.10 0.25 0.00
[ bonds ]
p q
q r
""".splitlines()
VOLS = {"R1": 0.5, "R2": 0.5, "R3": 0.5, "R4": 0.5, "R5": 0.5, "G3": 0.5}


def systems(tier):
    out = []
    for name in ("LIN", "STAR", "HUB", "SOLO", "PERM", "DUPA", "DUPN"):
        for bf in (0.4, 1.0) if not name.startswith("DUP") else (0.4,):
            out.append(dict(types=[name], typedefs={name: TYPEDEFS[name]}, molecules=[(name, 1)], box=[4.0, 4.0, 4.0],
                            grid=[[1.0, 1.0, 1.0], [2.5, 2.5, 2.5]], volumes=VOLS, bld_pre=TEMPLATES, kwargs=dict(bfudge=bf)))
    # backmapping factors above 1 (the template is blown up, not shrunk)
    for name, bf in (("LIN", 1.5), ("HUB", 2.0), ("SOLO", 1.5), ("SOLO", 0.0), ("LIN", 0.0)):       # 0: every atom on its residue position
        out.append(dict(types=[name], typedefs={name: TYPEDEFS[name]}, molecules=[(name, 1)], box=[4.0, 4.0, 4.0],
                        grid=[[1.0, 1.0, 1.0], [2.5, 2.5, 2.5]], volumes=VOLS, bld_pre=TEMPLATES, kwargs=dict(bfudge=bf), small_angles=True))
    # two molecules of the same type: copies must be congruent; second system has a prefix of atom coordinates supplied
    out.append(dict(types=["LIN"], typedefs={"LIN": TYPEDEFS["LIN"]}, molecules=[("LIN", 2)], box=[4.0, 4.0, 4.0],
                    grid=[[1.0, 1.0, 1.0], [2.5, 2.5, 2.5], [3.0, 1.0, 2.0]], volumes=VOLS, bld_pre=TEMPLATES, kwargs=dict(bfudge=0.4), small_angles=True))
    out.append(dict(types=["LIN"], typedefs={"LIN": TYPEDEFS["LIN"]}, molecules=[("LIN", 1)], box=[4.0, 4.0, 4.0],
                    grid=[[1.0, 1.0, 1.0], [2.5, 2.5, 2.5]], volumes=VOLS, bld_pre=TEMPLATES, kwargs=dict(bfudge=0.4),
                    input=dict(kind="c", atoms=[(1, "R1", "a"), (2, "R3", "p"), (2, "R3", "q"), (2, "R3", "r")],
                               coords=[(1.0, 1.0, 1.0), (1.4, 1.05, 1.0), (1.6, 1.0, 1.1), (1.5, 1.2, 0.9)], box=[4.0, 4.0, 4.0])))
    # generated (not user supplied) template of a flexible residue in several molecules and molecule types
    out.append(dict(types=["GEN"], typedefs={"GEN": TYPEDEFS["GEN"]}, molecules=[("GEN", 3)], box=[4.0, 4.0, 4.0],
                    grid=[[1.0, 1.0, 1.0], [2.5, 2.5, 2.5], [3.0, 1.0, 2.0], [1.0, 3.0, 3.0]], volumes=VOLS, bld_pre=TEMPLATES, kwargs=dict(bfudge=0.4), small_angles=True))
    out.append(dict(types=["GEN", "LIN"], typedefs={"GEN": TYPEDEFS["GEN"], "LIN": TYPEDEFS["LIN"]}, molecules=[("GEN", 1), ("LIN", 1), ("GEN", 1)],
                    box=[4.0, 4.0, 4.0], grid=[[1.0, 1.0, 1.0], [2.5, 2.5, 2.5], [3.0, 1.0, 2.0], [1.0, 3.0, 3.0]], volumes=VOLS, bld_pre=TEMPLATES,
                    kwargs=dict(bfudge=1.0), small_angles=True))
    return out


def cases(tier):
    for i, s in enumerate(systems(tier)):
        yield dict(sys=s, idx=i, tier=tier)


def run_exec(sysd, chooser, angle_options):
    return G.run_gen_coords(sysd, chooser, angle_options=angle_options)


def gram(M):
    return M @ M.T


def judge(sysd, res, choices, angle_options):
    viols = []
    case1 = dict(sys=sysd, choices=choices)

    def bad(assertion, msg, tags=()):
        if len(viols) < 10:
            viols.append(dict(assertion=assertion, tags=list(tags), message=msg + f" | choices={choices}", case=case1, detail={}))
    if res["divergence"]:
        bad("harness-replay-divergence", res["divergence"], ["harness"])
        return viols, 0
    if res["exc"] is not None:
        viols.append(crash_violation(res["exc"], case1, assertion="backmapping-does-not-crash"))
        return viols, 0
    top = res.get("topology")
    if top is None:
        bad("backmapping-ran", "Backmap.run_system was not reached")
        return viols, 0
    fudge = sysd["kwargs"]["bfudge"]
    supplied = {}
    if sysd.get("input"):
        inp = sysd["input"]
        for (resid, resname, an), xyz in zip(inp["atoms"], inp["coords"]):
            supplied[(0, resid, an)] = np.array(xyz)
    nres = 0
    shapes = {}
    for mi, mm in enumerate(top.molecules):
        mol = mm.molecule
        for node in mm.nodes:
            nd = mm.nodes[node]
            atoms = list(nd["graph"].nodes)
            names = [mol.nodes[a]["atomname"] for a in atoms]
            P = np.array([mol.nodes[a]["position"] for a in atoms], dtype=float)
            if not nd.get("backmap", True):
                for a, nm in zip(atoms, names):
                    want = supplied.get((mi, nd["resid"], nm))
                    if want is not None and not np.array_equal(mol.nodes[a]["position"], want):
                        bad("unflagged-residue-untouched", f"molecule {mi} residue {nd['resid']} atom {nm}: {mol.nodes[a]['position']} supplied {want}")
                continue
            nres += 1
            centre = np.asarray(nd["position"], dtype=float)
            if not np.abs(P.mean(axis=0) - centre).max() <= 1e-9:
                bad("centre-of-geometry-on-residue-position", f"molecule {mi} residue {nd['resid']} ({nd['resname']}): centre of geometry {P.mean(axis=0)} residue position {centre}")
            tmpl = mm.templates[nd["template"]]
            if sorted(tmpl) != sorted(names):
                bad("atom-takes-template-of-own-name", f"residue {nd['resname']}: atoms {names} template {sorted(tmpl)}")
                continue
            T = np.array([tmpl[nm] for nm in names], dtype=float)
            if fudge == 0:
                # the template scaled by 0: every atom sits on the residue position
                if not np.abs(P - centre).max() <= 1e-9:
                    bad("rigid-copy-of-template", f"molecule {mi} residue {nd['resid']} ({nd['resname']}): backmapping factor 0, atoms up to {np.abs(P - centre).max()} nm from the residue position")
                continue
            Q = (P - centre) / fudge
            if not np.abs(gram(Q) - gram(T)).max() <= 1e-8:
                bad("rigid-copy-of-template", f"molecule {mi} residue {nd['resid']} ({nd['resname']}): Gram matrices differ by {np.abs(gram(Q) - gram(T)).max()}")
            if len(names) >= 4:
                for quad in itertools.combinations(range(len(names)), 4):
                    vt = np.linalg.det(T[list(quad[1:])] - T[quad[0]])
                    vq = np.linalg.det(Q[list(quad[1:])] - Q[quad[0]])
                    if abs(vt) > 1e-9 and (vt > 0) != (vq > 0):
                        bad("proper-rotation-keeps-handedness", f"molecule {mi} residue {nd['resid']} ({nd['resname']}): signed volume {vq} vs template {vt}")
                        break
            order = np.argsort(names)      # copies may list their atoms in different orders: compare by atom name
            shapes.setdefault(nd["template"], []).append(np.round(gram(Q[order]), 7).tolist())
    for tname, gs in shapes.items():
        if any(g != gs[0] for g in gs):
            bad("copies-of-a-residue-type-congruent", f"template {tname}: copies differ")
    return viols, nres


def second_pass(sysd, res, choices, angle_options):
    """from a non-initial state: the residues of the finished system are moved and backmapped again with another factor
    (public Backmap processor on the same topology); the atoms must follow - same oracle as after the first pass"""
    top = res.get("topology")
    if top is None or res["exc"] is not None or res["divergence"]:
        return []
    from polyply.src.backmap import Backmap
    shift = np.array([0.35, -0.2, 0.15])
    for mm in top.molecules:
        for node in mm.nodes:
            if mm.nodes[node].get("backmap", True):
                mm.nodes[node]["position"] = np.asarray(mm.nodes[node]["position"], dtype=float) + shift
    f2 = 1.0 if sysd["kwargs"]["bfudge"] not in (1.0,) else 0.5
    state = np.random.get_state()
    np.random.seed(12345)
    try:
        Backmap(fudge_coords=f2).run_system(top)
    except Exception as exc:  # noqa
        return [crash_violation(exc, dict(sys=sysd, choices=choices, second_pass=True), assertion="backmapping-does-not-crash", tags=["second-pass"])]
    finally:
        np.random.set_state(state)
    s2 = dict(sysd, kwargs=dict(sysd["kwargs"], bfudge=f2))
    v, _ = judge(s2, dict(res, topology=top), choices, angle_options)
    for x in v:
        x["tags"] = sorted(set(x["tags"]) | {"second-pass"})
        x["message"] = "after moving the residues and backmapping again with factor %s: " % f2 + x["message"]
        x["case"] = dict(sys=sysd, choices=choices, second_pass=True)
    return v


def run_case(case):
    sysd = case["sys"]
    opts = ANGLES_Q if case["tier"] == "quick" and not sysd.get("small_angles") else ANGLES_T
    if "choices" in case:
        res = run_exec(sysd, Chooser(case["choices"]), case.get("angle_options") or opts)
        v, _ = judge(sysd, res, case["choices"], opts)
        if case.get("second_pass"):
            v = second_pass(sysd, res, case["choices"], opts)
        return dict(evals=1, keys=[], violations=v, stats={})
    bounds = {"env": 1 if case["tier"] == "quick" else 2, "vec": 0, "grid": 0}
    evals, keys, viols, traces, ntrans = 0, set(), [], set(), 0
    stats = dict(executions=0, residues_checked=0, unowned_random_draws=0, horizon_cuts=0)
    for prefix, ch, res in explore(lambda c: run_exec(sysd, c, opts), bounds, stats=stats):
        evals += 1
        ntrans += len(ch.trace)
        stats["executions"] += 1
        stats["unowned_random_draws"] += res["unowned"]
        v, nres = judge(sysd, res, ch.choices(), opts)
        for x in v:
            x["case"]["angle_options"] = opts
        stats["residues_checked"] += nres
        if evals <= 3 and not sysd.get("input"):
            v2 = second_pass(sysd, res, ch.choices(), opts)
            stats["second_passes"] = stats.get("second_passes", 0) + 1
            v = v + v2
        if len(viols) < 20:
            viols += v
        traces.add(tuple(ch.choices()))
        devs = [(i, t[2]) for i, t in enumerate(ch.trace) if t[0] == "angles" and t[2] != t[3]]
        if devs:
            keys.add(f"{case['idx']}:{devs}")
    stats["states"] = len(traces)
    stats["transitions"] = ntrans
    return dict(evals=evals, keys=sorted(keys), violations=viols, stats=stats,
                sample=dict(types=sysd["types"], bfudge=sysd["kwargs"]["bfudge"], executions=evals, angle_options=len(opts)))


def finalize(agg, tier):
    return ["random draws outside the seams"] if agg["stats"].get("unowned_random_draws", 0) else []
