"""C17 - failed placements are rolled back completely; accepted ones never move (E1 + fault injection)."""
import json
import numpy as np
from .. import gc_harness as G, gc_oracle as O
from ..explore_choice import explore, Chooser
from ..runner import crash_violation

PID = "C17"
LEVEL = "model_checking"
RULE = ("stateless exploration of the real gen_coords under a chooser: systems (linear / branched / cyclic residue graphs, "
        "1-3 molecules, 0/1/2 pre-positioned residues, nrewind in {1,2,3,5}, molecule attempts maxiter in {0,1,2}) x every "
        "schedule of injected step failures and abandoned molecule attempts up to F failures (quick F<=3, thorough F<=4) x "
        "<=1 direction deviation x <=1 start-point deviation; monitors at every engine / walk event: parent positioned, "
        "residue placed once, every later residue of the growth order unpositioned at each step (rollback complete), new "
        "attempt starts clean, accepted molecules frozen, final state has exactly one position per residue. states = distinct "
        "event traces; distinct_nontrivial = distinct executions that took a rewind, a retry or the give-up branch")
ASSUMPTIONS = ["direction bundle = 6 axis vectors (a legal, if improbable, sample of the real sampler)",
               "a failed step is injected as update_positions returning False without placing, exactly what it does when all tries are rejected",
               "horizon: 400 chooser calls per execution; executions cut by it are counted, not judged"]
BUDGET = {"quick": 500, "thorough": 3000}

GRID = [[0.5, 0.5, 0.5], [1.5, 2.0, 1.0], [2.5, 1.0, 2.0], [1.0, 3.0, 3.0]]


def systems(tier):
    out = []
    for typ, rewinds in (("CH4", (1, 2, 3, 5)), ("BR5", (1, 3)), ("RING5", (2, 3)), ("CH6", (2, 5))):
        for nrewind in rewinds if tier == "quick" else (1, 2, 3, 5):
            out.append(dict(types=[typ], molecules=[(typ, 1)], box=[4.0, 4.0, 4.0], grid=GRID,
                            kwargs=dict(nrewind=nrewind, maxiter=2)))
    for maxiter in (0, 1, 2):
        out.append(dict(types=["CH3", "W"], molecules=[("W", 1), ("CH3", 1), ("W", 1)], box=[4.0, 4.0, 4.0], grid=GRID,
                        kwargs=dict(nrewind=2, maxiter=maxiter)))
        out.append(dict(types=["BR4", "CH2"], molecules=[("CH2", 1), ("BR4", 2)], box=[4.0, 4.0, 4.0], grid=GRID,
                        kwargs=dict(nrewind=1, maxiter=maxiter), F=2 if tier == "quick" else 3))
    # pre-positioned residues (centre positions through -mc), chain prefix of 1 or 2 residues
    for typ, npre in (("CH4", 1), ("CH4", 2), ("BR5", 2), ("RING5", 1)):
        tdef = G.TYPES[typ]
        pts = [(0.5 + 0.5 * i, 0.5, 0.5) if tdef["res"][i][0] == "S" else (0.5 + 0.5 * i + 0.25, 0.5, 0.5) for i in range(npre)]
        if typ == "CH4":
            pts = [(0.5, 0.5, 0.5), (1.25, 0.5, 0.5)][:npre]
        for nrewind in (1, 3):
            out.append(dict(types=[typ], molecules=[(typ, 1)], box=[4.0, 4.0, 4.0], grid=GRID,
                            input=dict(kind="mc", atoms=[(i + 1, tdef["res"][i][0], tdef["res"][i][1][0]) for i in range(npre)],
                                       coords=pts, box=[4.0, 4.0, 4.0]),
                            kwargs=dict(nrewind=nrewind, maxiter=2)))
    # a supplied residue in the middle of the chain (given with -c, all other residues named in -res): the growth path
    # has a skipped step inside the window a rewind covers
    for nrewind in (2, 3, 5):
        out.append(dict(types=["MID7"], molecules=[("MID7", 1)], box=[4.0, 4.0, 4.0], grid=GRID,
                        input=dict(kind="c", atoms=[(4, "K", "k")], coords=[(2.0, 0.5, 0.5)], box=[4.0, 4.0, 4.0]),
                        kwargs=dict(nrewind=nrewind, maxiter=2, build_res=["S"]), F=2 if tier == "quick" else 3))
    # growth from an inner residue of a branched molecule (-start): breadth-first order differs from the residue order
    for nrewind in (1, 2):
        out.append(dict(types=["BR5"], molecules=[("BR5", 1)], box=[4.0, 4.0, 4.0], grid=GRID,
                        kwargs=dict(nrewind=nrewind, maxiter=2, start=["BR5-S#4"]), F=2 if tier == "quick" else 3))
    # declared cyclic molecules: the closing restraint produces natural failures on top of the injected ones
    for typ in ("RING4",) if tier == "quick" else ("RING4", "RING6"):
        out.append(dict(types=[typ], molecules=[(typ, 1)], box=[4.0, 4.0, 4.0], grid=GRID,
                        kwargs=dict(nrewind=2, maxiter=2, cycles=[typ], cycle_tol=0.3), F=2))
    # a molecule of more than 10 residues (the engine's trees are consolidated after it) followed by molecules whose
    # placements fail: rollback has to work on the consolidated tree
    for nrewind in (2,) if tier == "quick" else (1, 2):
        out.append(dict(types=["CH11", "CH3"], molecules=[("CH11", 1), ("CH3", 2)], box=[5.0, 5.0, 5.0], grid=GRID,
                        kwargs=dict(nrewind=nrewind, maxiter=2), F=2))
    if tier == "thorough":
        for typ in ("RING4", "RING6", "CH5"):
            for nrewind in (1, 2, 3, 5):
                out.append(dict(types=[typ], molecules=[(typ, 2)], box=[3.0, 3.0, 3.0], grid=GRID[:3],
                                kwargs=dict(nrewind=nrewind, maxiter=2)))
    return out


def cases(tier):
    for i, s in enumerate(systems(tier)):
        yield {"sys": s, "tier": tier, "idx": i}


def run_exec(sysdef, chooser):
    return G.run_gen_coords(sysdef, chooser, fault_steps=True, fault_attempts=True)


def judge(sysdef, res, choices):
    viols = []
    case1 = {"sys": sysdef, "choices": choices}
    if res["divergence"]:
        return [dict(assertion="harness-replay-divergence", tags=["harness"], message=res["divergence"], case=case1, detail={})], None
    has_supplied = bool(sysdef.get("input"))
    out, final = O.check_events(sysdef, res, grid=sysdef.get("grid"))
    for owner, assertion, msg, tags in out:
        if owner in ("C17",) or assertion == "failed-attempt-keeps-supplied-coordinates":
            viols.append(dict(assertion=assertion, tags=tags, message=msg + f" | choices={choices}", case=case1, detail={}))
    if res["exc"] is not None:
        tags = ["retry-with-supplied-residues"] if has_supplied and any(e[0] == "attempt-result" and not e[2] for e in res["events"]) else []
        v = crash_violation(res["exc"], case1, assertion="building-survives-failure-schedule", tags=tags)
        viols.append(v)
    elif not res["horizon"]:
        # successful end: exactly one finite position per residue of every molecule
        layout = O.mol_layout(sysdef)
        for m, (name, n, adj, tdef) in enumerate(layout):
            for k in range(n):
                p = final["pos"].get((m, k))
                if p is None or not np.all(np.isfinite(p)):
                    viols.append(dict(assertion="every-residue-positioned-at-end", tags=[], message=f"residue {(m, k)} has no finite position at the end | choices={choices}", case=case1, detail={}))
        if res.get("gro") is None:
            viols.append(dict(assertion="every-residue-positioned-at-end", tags=[], message="no output structure after successful build", case=case1, detail={}))
    return viols, final


def run_case(case):
    sysdef = case["sys"]
    if "choices" in case:
        res = run_exec(sysdef, Chooser(case["choices"]))
        v, _ = judge(sysdef, res, case["choices"])
        return dict(evals=1, keys=[], violations=v, stats={})
    F = sysdef.get("F") or (3 if case["tier"] == "quick" else 4)
    bounds = {"fault": F, "vec": 1, "grid": 1, "*": F}
    evals, keys, viols = 0, set(), []
    stats = dict(executions=0, horizon_cuts=0, rewinds=0, retries=0, giveups=0, unowned_random_draws=0, crashes=0)
    traces = set()
    first = None
    ntrans = 0
    for prefix, ch, res in explore(lambda c: run_exec(sysdef, c), bounds, stats=stats, max_execs=6000 if case["tier"] == "quick" else 40000):
        evals += 1
        ntrans += len(ch.trace)
        stats["executions"] += 1
        if first is None:
            first = (res, ch.choices())
            # determinism: replay the first execution and require an identical event trace
            res2 = run_exec(sysdef, Chooser(ch.choices()))
            if repr(res2["events"]) != repr(res["events"]):
                viols.append(dict(assertion="harness-replay-divergence", tags=["harness"], message="first execution not reproducible",
                                  case={"sys": sysdef, "choices": ch.choices()}, detail={}))
        stats["unowned_random_draws"] += res["unowned"]
        if res["horizon"]:
            stats["horizon_cuts"] += 1
        kinds = [e[0] for e in res["events"]]
        nrew = kinds.count("rewind")
        nfail_attempt = sum(1 for e in res["events"] if e[0] == "attempt-result" and not e[2])
        per_mol = {}
        for e in res["events"]:
            if e[0] == "attempt":
                per_mol[e[1]] = per_mol.get(e[1], 0) + 1
        if any(n > sysdef.get("kwargs", {}).get("maxiter", 800) + 1 for n in per_mol.values()):
            stats["giveups"] += 1
        stats["rewinds"] += nrew
        stats["retries"] += nfail_attempt
        v, final = judge(sysdef, res, ch.choices())
        if res["exc"] is not None:
            stats["crashes"] += 1
        if len(viols) < 40:
            viols += v
        tr = hash(repr(res["events"]))
        traces.add(tr)
        stats["capped_systems"] = 0
        if nrew or nfail_attempt:
            keys.add(f"{case['idx']}:{tr}")
    stats["states"] = len(traces)
    stats["transitions"] = ntrans
    return dict(evals=evals, keys=sorted(keys), violations=viols, stats=stats,
                sample={"system": {k: sysdef[k] for k in ("types", "molecules", "kwargs")}, "executions": evals,
                        "first_choices": first[1] if first else None})


def finalize(agg, tier):
    probs = []
    st = agg["stats"]
    if st.get("rewinds", 0) == 0:
        probs.append("no execution took the rewind branch")
    if st.get("retries", 0) == 0:
        probs.append("no execution abandoned a molecule attempt")
    if st.get("unowned_random_draws", 0):
        probs.append("random draws outside the seams: exhaustive claim withdrawn")
    return probs
