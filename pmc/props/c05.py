"""C05 - generated residues are one step apart, inside the box, never overlapping (E1)."""
import numpy as np
from .. import gc_harness as G, gc_oracle as O
from ..explore_choice import explore, Chooser
from ..runner import crash_violation

PID = "C05"
LEVEL = "model_checking"
RULE = ("stateless exploration of the real gen_coords under a chooser: systems with mixed residue sizes (0.5/1.0 nm), linear, "
        "branched and cyclic residue graphs, dilute and dense boxes (down to 2.5 nm with 8 molecules), one orthorhombic box, "
        "a chain built next to 5001 supplied residues (second search tree), start grids with points next to the periodic boundary, step factors {1.0, 0.5}, force limits {default, 10, 1e9}; all "
        "trajectories with <=2 direction deviations and <=1 start-point deviation from the default (first vector, round-robin "
        "grid point), natural rejections included (thorough: <=3 and diagonal bundles). Oracle at every accepted add_positions: "
        "inside [0, box); minimum-image distance to the parent == step; first residue on its grid point; brute-force minimum "
        "image distances to all positioned residues >= 0.1 nm; brute-force 12-6 force from positioned non-neighbours within the "
        "cut-off <= max force (pairs exactly on the cut-off are don't-care). states = distinct event traces; "
        "distinct_nontrivial = distinct executions with >=1 boundary crossing or >=1 natural rejection")
ASSUMPTIONS = ["direction bundles are exact lattice vectors (6 axis; thorough also 14 and 18), a legal sample of the real sampler",
               "sizes fixed through [ volumes ] so lattice arithmetic is exact"]
BUDGET = {"quick": 500, "thorough": 3000}

G1 = [[0.25, 0.25, 0.25], [2.25, 1.25, 0.75], [1.25, 2.25, 2.25], [0.75, 0.75, 2.25],
      [1.75, 0.25, 1.75], [0.25, 1.75, 1.25], [2.25, 2.25, 0.25], [1.25, 0.75, 0.25]]


def systems(tier):
    out = []
    base = dict(box=[2.5, 2.5, 2.5], grid=G1)
    out.append(dict(types=["CH4"], molecules=[("CH4", 2)], **base))
    out.append(dict(types=["CH4"], molecules=[("CH4", 2)], box=[4.0, 4.0, 4.0], grid=[[3.75, 3.75, 3.75], [0.0, 0.0, 0.0], [2.0, 2.0, 2.0]]))
    out.append(dict(types=["BR4", "W"], molecules=[("W", 2), ("BR4", 1), ("W", 1)], **base))
    out.append(dict(types=["RING5"], molecules=[("RING5", 1)], **base))
    out.append(dict(types=["CH6"], molecules=[("CH6", 1)], **base))   # the 6th residue wraps onto the first
    out.append(dict(types=["CH3", "W"], molecules=[("W", 3), ("CH3", 1), ("W", 2)], **base))
    out.append(dict(types=["CH4"], molecules=[("CH4", 1)], box=[3.0, 3.5, 4.5], grid=[[2.75, 3.25, 4.25], [0.25, 0.25, 0.25]]))
    for sf in (0.5,):
        out.append(dict(types=["CH4"], molecules=[("CH4", 2)], kwargs=dict(step_fudge=sf), **base))
        out.append(dict(types=["BR5"], molecules=[("BR5", 1)], kwargs=dict(step_fudge=sf), **base))
    for mf in (10.0, 1e9):
        out.append(dict(types=["CH5"], molecules=[("CH5", 2)], kwargs=dict(max_force=mf), **base))
        out.append(dict(types=["RING4", "W"], molecules=[("W", 2), ("RING4", 1)], kwargs=dict(max_force=mf), **base))
    out.append(dict(types=["MIX3"], molecules=[("MIX3", 2)], **base))
    # growth starts at an inner residue (-start): placement order differs from the order of the residues in the topology
    for mf in (10.0, None):
        kw = dict(start=["CH4-B#2"])
        if mf:
            kw["max_force"] = mf
        out.append(dict(types=["CH4"], molecules=[("CH4", 2)], kwargs=dict(kw), **base))
        kw2 = dict(kw, start=["BR4-B#4"])
        out.append(dict(types=["BR4", "W"], molecules=[("BR4", 1), ("W", 2), ("BR4", 1)], kwargs=kw2, **base))
    # off-lattice start point 0.05 nm from a site the chain reaches: only the 0.1 nm floor can reject it (force limit disabled)
    out.append(dict(types=["CH3", "W"], molecules=[("W", 1), ("CH3", 1)], box=[2.5, 2.5, 2.5],
                    grid=[[0.80, 0.25, 0.25], [0.25, 0.25, 0.25], [1.25, 1.30, 1.25], [2.0, 2.0, 2.0]], kwargs=dict(max_force=1e30)))
    # declared cyclic molecules: the ring closing residue has a second positioned bonded neighbour
    out.append(dict(types=["RING4"], molecules=[("RING4", 2)], kwargs=dict(cycles=["RING4"], cycle_tol=0.3), **base))
    out.append(dict(types=["RING5"], molecules=[("RING5", 1)], kwargs=dict(cycles=["RING5"], cycle_tol=0.3), bundle="axis+face18", devs=1, **base))
    # rebuilt residues around a supplied one, with injected placement failures: rewinds whose window spans the supplied residue
    out.append(dict(types=["MID7"], molecules=[("MID7", 1)], box=[4.0, 4.0, 4.0], grid=G1[:3], faults=True, devs=1,
                    input=dict(kind="c", atoms=[(4, "K", "k")], coords=[(2.0, 0.5, 0.5)], box=[4.0, 4.0, 4.0]),
                    kwargs=dict(nrewind=3, maxiter=2, build_res=["S"])))
    # polyply's own start grid (no -grid file) in a strongly non-cubic box: every grid point is tried as the first start
    out.append(dict(types=["CH3"], molecules=[("CH3", 1)], box=[2.0, 3.0, 4.0], grid=None, kwargs=dict(grid_spacing=1.0), own_grid=True))
    # ... and in a box whose edge is a multiple of the spacing only up to round-off (2.1 / 0.3 = 7.000000000000001): no start point
    # may lie on the upper box face
    out.append(dict(types=["CH3"], molecules=[("CH3", 1)], box=[2.1, 2.0, 2.0], grid=None, kwargs=dict(grid_spacing=0.3), own_grid=True, devs=0))
    # the molecule type declares an atom-level exclusion distance of 3 (as atomistic force fields do): at residue level still only
    # the residue grown from is exempt from the force; with a force limit of 1 a right-angle turn (0.71 nm from the residue
    # before the parent, force 3.2) has to be refused
    out.append(dict(types=["CH5"], molecules=[("CH5", 1)], mol_nrexcl=3, kwargs=dict(max_force=1.0, maxiter=3, nrewind=2), box=[4.0, 4.0, 4.0],
                    grid=[[0.75, 0.75, 0.75], [2.25, 1.25, 0.75], [1.25, 2.25, 2.25]], devs=2))
    # very different residue sizes (1.2 nm next to 0.15 nm): the small residues are tried 0.35 - 0.6 nm from the large one, far
    # beyond twice their own size and far inside the cut-off (twice the largest size)
    out.append(dict(types=["W", "CH3"], molecules=[("W", 1), ("CH3", 2)], box=[5.0, 6.0, 7.0], volumes={"W": 1.2, "S": 0.15},
                    grid=[[2.85, 2.5, 2.5], [2.5, 3.1, 2.5], [0.5, 0.5, 0.5], [4.0, 5.0, 6.0]],
                    input=dict(kind="c", atoms=[(1, "W", "w")], coords=[(2.5, 2.5, 2.5)], box=[5.0, 6.0, 7.0])))
    # more than 5000 supplied residues: the chain's residues go into a second search tree, forces and the 0.1 nm floor have to
    # see the residues of the first one (start point 1 sits inside the slab of supplied W: force ~2000 > limit 100; start
    # point 2 sits 0.5 nm above the slab: ~12; the step down from there ends 0.15 nm from a supplied W - above the 0.1 nm floor,
    # force ~6e8 - the other steps run along the slab or away)
    out.append(dict(types=["W", "CH3"], molecules=[("W", 5001), ("CH3", 1)], box=[10.0, 10.0, 10.0], devs=1,
                    grid=[[1.05, 1.0, 1.0], [4.9, 4.75, 6.75], [4.75, 4.75, 8.25]], kwargs=dict(max_force=100.0),
                    input=dict(kind="c", lattice=dict(count=5001, spacing=0.5, origin=[0.25, 0.25, 0.25], per_axis=20), box=[10.0, 10.0, 10.0])))
    if tier == "thorough":
        for b in ("axis+diag14", "axis+face18"):
            out.append(dict(types=["CH4"], molecules=[("CH4", 2)], bundle=b, **base))
            out.append(dict(types=["BR4", "W"], molecules=[("W", 1), ("BR4", 1)], bundle=b, **base))
        out.append(dict(types=["CH3", "W"], molecules=[("W", 4), ("CH3", 2), ("W", 2)], **base))
    return out


def expected_grid(sysdef):
    """the user's grid file, or (own_grid) the reference start grid: all multiples of the spacing inside the box"""
    if not sysdef.get("own_grid"):
        return sysdef.get("grid")
    sp = sysdef["kwargs"]["grid_spacing"]
    axes = [[k * sp for k in range(int(np.ceil(b / sp - 1e-12)))] for b in sysdef["box"]]
    return [[x, y, z] for x in axes[0] for y in axes[1] for z in axes[2]]


def cases(tier):
    for i, s in enumerate(systems(tier)):
        yield {"sys": s, "tier": tier, "idx": i}


def run_exec(sysdef, chooser):
    return G.run_gen_coords(sysdef, chooser, bundle=sysdef.get("bundle", "axis6"), fault_steps=bool(sysdef.get("faults")))


def judge(sysdef, res, choices):
    viols = []
    case1 = {"sys": sysdef, "choices": choices}
    if res["divergence"]:
        return [dict(assertion="harness-replay-divergence", tags=["harness"], message=res["divergence"], case=case1, detail={})], None
    out, final = O.check_events(sysdef, res, grid=expected_grid(sysdef))
    for owner, assertion, msg, tags in out:
        if owner == "C05":
            viols.append(dict(assertion=assertion, tags=tags, message=msg + f" | choices={choices}", case=case1, detail={}))
    if res["exc"] is not None:
        viols.append(crash_violation(res["exc"], case1, assertion="building-does-not-crash"))
    elif not res["horizon"] and final is not None:
        # the positions the build ends with: every residue of every molecule finite and inside the box
        box = np.array(sysdef["box"])
        for (m, k), p in sorted(final["pos"].items()):
            if p is None or not np.all(np.isfinite(p)) or np.any(np.asarray(p) < -1e-9) or np.any(np.asarray(p) >= box + 1e-9):
                viols.append(dict(assertion="inside-the-box", tags=["final-position"], message=f"residue {(m, k)} ends at {p} (box {box.tolist()}) | choices={choices}",
                                  case=case1, detail={}))
        layout = O.mol_layout(sysdef)
        for m, (name, n, adj, tdef) in enumerate(layout):
            for k in range(n):
                if (m, k) not in final["pos"]:
                    viols.append(dict(assertion="inside-the-box", tags=["final-position"], message=f"residue {(m, k)} has no position at the end | choices={choices}",
                                      case=case1, detail={}))
    return viols, final


def run_case(case):
    sysdef = case["sys"]
    if "choices" in case:
        res = run_exec(sysdef, Chooser(case["choices"]))
        v, _ = judge(sysdef, res, case["choices"])
        return dict(evals=1, keys=[], violations=v, stats={})
    d = sysdef["devs"] if sysdef.get("devs") is not None else (2 if case["tier"] == "quick" else 3)
    bounds = {"vec": d, "grid": 1, "*": max(d, 1)}
    if sysdef.get("faults"):
        bounds = {"fault": 2, "vec": 0, "grid": 0, "*": 2}
    evals, keys, viols, traces, ntrans = 0, set(), [], set(), 0
    stats = dict(executions=0, horizon_cuts=0, natural_rejections=0, boundary_crossings=0, unowned_random_draws=0, adds_checked=0)
    first = None
    for prefix, ch, res in explore(lambda c: run_exec(sysdef, c), bounds, stats=stats):
        evals += 1
        ntrans += len(ch.trace)
        stats["executions"] += 1
        if first is None:
            first = ch.choices()
            res2 = run_exec(sysdef, Chooser(first))
            if repr(res2["events"]) != repr(res["events"]):
                viols.append(dict(assertion="harness-replay-divergence", tags=["harness"], message="first execution not reproducible",
                                  case={"sys": sysdef, "choices": first}, detail={}))
        stats["unowned_random_draws"] += res["unowned"]
        stats["horizon_cuts"] += int(res["horizon"])
        v, final = judge(sysdef, res, ch.choices())
        if len(viols) < 40:
            viols += v
        # coverage classifiers
        nsteps = sum(1 for e in res["events"] if e[0] == "step")
        nvec = sum(1 for t in ch.trace if t[0] in ("vec", "vec-retry"))
        rej = nvec - sum(1 for e in res["events"] if e[0] == "step-result" and e[3])
        adds = [e for e in res["events"] if e[0] == "add"]
        stats["adds_checked"] += len(adds)
        cross = 0
        box = np.array(sysdef["box"])
        lastpos = {}
        for e in res["events"]:
            if e[0] == "step":
                cur = (e[1], e[2], e[3])
            elif e[0] == "add":
                lastpos[(e[1], e[2])] = np.array(e[3])
        for e in res["events"]:
            if e[0] == "step":
                pend = (e[1], e[2], e[3])
            if e[0] == "add" and not e[4]:
                m, k = e[1], e[2]
        # boundary crossing: direct distance to parent differs from minimum-image distance
        pend = None
        posd = {}
        for e in res["events"]:
            if e[0] == "engine":
                posd = {k: np.array(v) for k, v in e[1].items()}
            elif e[0] == "step":
                pend = (e[1], e[2], e[3])
            elif e[0] == "add":
                p = np.array(e[3])
                if pend and pend[:2] == (e[1], e[2]) and (e[1], pend[2]) in posd:
                    q = posd[(e[1], pend[2])]
                    if abs(np.linalg.norm(p - q) - np.linalg.norm(O.min_image(p - q, box))) > 1e-9:
                        cross += 1
                posd[(e[1], e[2])] = p
                pend = None
            elif e[0] == "remove":
                for k in e[2]:
                    posd.pop((e[1], k), None)
        stats["natural_rejections"] += max(rej, 0)
        stats["boundary_crossings"] += cross
        tr = hash(repr(res["events"]))
        traces.add(tr)
        if cross or rej > 0:
            keys.add(f"{case['idx']}:{tr}")
    stats["states"] = len(traces)
    stats["transitions"] = ntrans
    return dict(evals=evals, keys=sorted(keys), violations=viols, stats=stats,
                sample={"system": {k: sysdef.get(k) for k in ("types", "molecules", "box", "kwargs")}, "executions": evals, "first_choices": first})


def finalize(agg, tier):
    probs = []
    st = agg["stats"]
    if st.get("boundary_crossings", 0) == 0:
        probs.append("no step crossed the periodic boundary")
    if st.get("natural_rejections", 0) == 0:
        probs.append("no placement was ever rejected")
    if st.get("unowned_random_draws", 0):
        probs.append("random draws outside the seams")
    return probs
