"""C20 - outputs appear only after success and never clobber existing files (fault enumeration)."""
import contextlib, hashlib, io, json, os, sys
from pathlib import Path
import numpy as np
from .. import ffmodel as F, gp_harness as H, gp_cases, gc_harness as G, seams
from ..explore_choice import Chooser

PID = "C20"
LEVEL = "fault_enumeration"
RULE = ("for gen_params, gen_coords and gen_seq: an exception injected at the entry of every stage (call site) of the program, and "
        "for the serialisers also after k = 1..3 lines have been written to the deferred handle, x output path state {absent, "
        "present with known content, present plus existing #name.1# backup} x {absolute, relative output path} x {rename works, rename "
        "across file systems answers EXDEV (success runs and the writing stages)}; after the failure a later successful run of the same "
        "program to another path in the same process is observed as well (a stale deferred write would surface there). Oracle: "
        "failure => directory listing and content hashes unchanged (also after the later run, apart from that run's own output); "
        "success (no fault) => complete re-readable file, previous file byte-identical under the next free #name.k#. "
        "distinct_nontrivial = distinct (program, stage, path state) with a pre-existing file")
ASSUMPTIONS = ["stage boundaries are the call sites listed in pmc/props/c20.py (every call in the three top-level functions)",
               "an injected fault is a RuntimeError raised at the entry of the callee"]
BUDGET = {"quick": 420, "thorough": 1200}


class InjectedFault(RuntimeError):
    pass


class InjectedKeyError(KeyError):
    pass


class InjectedOSError(OSError):
    pass


class InjectedValueError(ValueError):
    pass


FAULT_TYPES = {"runtime": InjectedFault, "key": InjectedKeyError, "os": InjectedOSError, "value": InjectedValueError}
INJECTED = tuple(FAULT_TYPES.values())


# (module path, attribute path) of every call site, in program order
GP_STAGES = [("polyply.src.gen_itp", "load_ff_library"),
             ("polyply.src.gen_itp", "MetaMolecule.from_monomer_seq_linear"),
             ("polyply.src.gen_itp", "complement_dsDNA"),
             ("polyply.src.gen_itp", "MapToMolecule.run_molecule"),
             ("polyply.src.gen_itp", "ApplyLinks.run_molecule"),
             ("polyply.src.gen_itp", "ApplyModifications.run_molecule"),
             ("polyply.src.gen_itp", "find_missing_edges"),
             ("polyply.src.gen_itp", "deferred_open"),
             ("polyply.src.gen_itp", "citation_formatter"),
             ("vermouth.gmx.itp", "write_molecule_itp"),
             ("vermouth.gmx.itp", "write_molecule_itp@1"),
             ("vermouth.gmx.itp", "write_molecule_itp@2"),
             ("vermouth.gmx.itp", "write_molecule_itp@3"),
             ("vermouth.file_writer", "DeferredFileWriter.write"),
             ("polyply.src.gen_itp", "LOGGER.log@model")]
GC_STAGES = [("polyply.src.gen_coords", "Topology.from_gmx_topfile"),
             ("polyply.src.topology", "Topology.preprocess"),
             ("polyply.src.gen_coords", "_check_molecules"),
             ("polyply.src.topology", "Topology.add_positions_from_file"),
             ("polyply.src.gen_coords", "load_build_files"),
             ("polyply.src.gen_coords", "find_starting_node_from_spec"),
             ("polyply.src.gen_coords", "GenerateTemplates.run_system"),
             ("polyply.src.gen_coords", "AnnotateLigands.run_system"),
             ("polyply.src.gen_coords", "_initialize_cylces"),
             ("polyply.src.gen_coords", "BuildSystem.run_system"),
             ("polyply.src.gen_coords", "AnnotateLigands.split_ligands"),
             ("polyply.src.gen_coords", "Backmap.run_system"),
             ("polyply.src.topology", "Topology.convert_to_vermouth_system"),
             ("vermouth.gmx.gro", "write_gro"),
             ("vermouth.gmx.gro", "write_gro@1"),
             ("vermouth.gmx.gro", "write_gro@3"),
             ("vermouth.file_writer", "DeferredFileWriter.write")]
GS_STAGES = [("polyply.src.gen_seq", "MacroString.__init__"),
             ("polyply.src.gen_seq", "generate_seq_graph"),
             ("polyply.src.gen_seq", "_apply_termini_modifications"),
             ("polyply.src.gen_seq", "_tag_nodes"),
             ("polyply.src.gen_seq", "json_graph.node_link_data")]
PATH_STATES = ["absent", "present", "present+backup"]


def cases(tier):
    for prog, stages in (("gen_params", GP_STAGES), ("gen_coords", GC_STAGES), ("gen_seq", GS_STAGES)):
        for st in [None] + stages:
            for ps in PATH_STATES:
                yield dict(prog=prog, stage=st, pstate=ps, tier=tier)
                # the same with the output given as a relative path (as on the command line: -o out.gro), cwd = output directory
                yield dict(prog=prog, stage=st, pstate=ps, tier=tier, relative=True)
                # environment answer: the directory of the temporary files is on another file system than the output, a
                # rename across the two fails with EXDEV and the file is copied instead (whatever has reached the disk by then)
                if st is None or "write" in st[1] or "LOGGER" in st[1]:
                    yield dict(prog=prog, stage=st, pstate=ps, tier=tier, xdev=True)
                # the error handling around the serialisers must not depend on the exception class
                if st is not None and ("write" in st[1] or "deferred_open" in st[1] or "citation" in st[1]) and ps == "present":
                    for ft in ("key", "os", "value"):
                        yield dict(prog=prog, stage=st, pstate=ps, tier=tier, fault=ft)


class FailingHandle:
    """file proxy raising after k write calls containing a newline"""
    def __init__(self, real, k, exc=InjectedFault):
        self.real, self.k, self.n, self.exc = real, k, 0, exc

    def write(self, text):
        if self.n >= self.k:
            raise self.exc("injected while writing")
        self.n += text.count("\n") or 1
        return self.real.write(text)

    def __getattr__(self, name):
        return getattr(self.real, name)


@contextlib.contextmanager
def inject(stage, fault="runtime"):
    import importlib
    Exc = FAULT_TYPES[fault]
    if stage is None:
        yield
        return
    modname, attr = stage
    mod = importlib.import_module(modname)
    k = None
    if attr == "LOGGER.log@model":
        # the reporting loop after the final write: LOGGER.log(..., type='model')
        logger = mod.LOGGER
        real_log = logger.log

        def log(level, msg, *a, **kw):
            if kw.get("type") == "model":
                raise Exc("injected in the reporting loop")
            return real_log(level, msg, *a, **kw)
        logger.log = log
        try:
            yield
        finally:
            del logger.log
        return
    if "@" in attr:
        attr, k = attr.split("@")
        k = int(k)
    parts = attr.split(".")
    obj = mod
    for p in parts[:-1]:
        obj = getattr(obj, p)
    name = parts[-1]
    orig = obj.__dict__.get(name, None) if isinstance(obj, type) else None
    real = getattr(obj, name)
    if k is None:
        def boom(*a, **kw):
            raise Exc(f"injected at {attr}")
        new = boom
    elif name == "write_molecule_itp":
        def new(molecule, outfile, *a, **kw):
            return real(molecule, FailingHandle(outfile, k, Exc), *a, **kw)
    else:  # write_gro opens the file itself through deferred_open: fail inside by patching the open it uses
        import vermouth.gmx.gro as vgro
        real_open = vgro.deferred_open

        @contextlib.contextmanager
        def failing_open(*a, **kw):
            with real_open(*a, **kw) as fh:
                yield FailingHandle(fh, k, Exc)

        def new(*a, **kw):
            vgro.deferred_open = failing_open
            try:
                return real(*a, **kw)
            finally:
                vgro.deferred_open = real_open
    if isinstance(obj, type) and isinstance(orig, (staticmethod, classmethod)):
        new_attr = staticmethod(new) if isinstance(orig, staticmethod) else classmethod(lambda cls, *a, **kw: new(*a, **kw))
    else:
        new_attr = new
    setattr(obj, name, new_attr)
    try:
        yield
    finally:
        if isinstance(obj, type) and orig is not None:
            setattr(obj, name, orig)
        elif isinstance(obj, type):
            delattr(obj, name)
        else:
            setattr(obj, name, real)


def listing(d):
    out = {}
    for p in sorted(Path(d).rglob("*")):
        if p.is_file():
            out[str(p.relative_to(d))] = hashlib.sha1(p.read_bytes()).hexdigest()
    return out


def prepare(d, outname, pstate):
    out = d / "out" / outname
    out.parent.mkdir(exist_ok=True)
    if pstate != "absent":
        out.write_text("OLD CONTENT of the output path\n")
    if pstate == "present+backup":
        (out.parent / f"#{outname}.1#").write_text("an even older backup\n")
    return out


def run_prog(prog, d, out, tag):
    """runs the program once on its standard small input; returns exception or None"""
    argv = sys.argv
    sys.argv = ["polyply", prog]
    exc = None
    try:
        with H.capture_logs(), contextlib.redirect_stdout(io.StringIO()):
            try:
                if prog == "gen_params":
                    from polyply.src.gen_itp import gen_params
                    ffp = d / f"ff_{tag}.ff"
                    ffp.write_text("[ citations ]\nverif2026\n\n" + F.render_ff(dict(blocks=DNA, links=[DNA_LINK], mods={})))
                    bib = d / f"cite_{tag}.bib"
                    bib.write_text("@article{verif2026,\nauthor={Checker, A and Model, B},\ntitle={Bounded exhaustive exploration},\n"
                                   "journal={J Verif},\nyear={2026},\nvolume={1},\ndoi={10.0000/verif}\n}\n")
                    gen_params(name="mol", outpath=out, inpath=[ffp, bib], seq=["DA5:1", "DG:1", "DT3:1"], dsdna=True)
                elif prog == "gen_coords":
                    sysd = dict(types=["CH3", "W"], molecules=[("CH3", 1), ("W", 1)], box=[3.0, 3.0, 3.0],
                                grid=[[0.5, 0.5, 0.5], [2.0, 2.0, 2.0], [1.0, 2.5, 1.5]])
                    from polyply.src.gen_coords import gen_coords
                    (d / f"sys_{tag}.top").write_text(G.render_top(sysd))
                    (d / f"sys_{tag}.bld").write_text(G.render_bld(sysd))
                    (d / f"in_{tag}.gro").write_text("")
                    G.write_gro(d / f"in_{tag}.gro", [(1, "S", "a")], [(0.5, 0.5, 0.5)], [3.0, 3.0, 3.0])
                    np.savetxt(d / f"grid_{tag}.dat", np.array(sysd["grid"]))
                    with seams.installed(Chooser([])):
                        gen_coords(toppath=d / f"sys_{tag}.top", outpath=out, name="v", build=[d / f"sys_{tag}.bld"],
                                   coordpath_meta=d / f"in_{tag}.gro", grid=str(d / f"grid_{tag}.dat"),
                                   start=["CH3-S#1"], ligands=[], cycles=[])
                else:
                    from polyply.src.gen_seq import gen_seq
                    gen_seq(name="m", outpath=out, seq=["A", "B"], macro_strings=["A:2:1:PEO-1.0", "B:2:2:PPO-1.0"],
                            connects=["0:1:1-0"], modifications=["0:OH"], tags=["1:lab:x-1.0"])
            except Exception as e:  # noqa
                exc = e
    finally:
        sys.argv = argv
    return exc


DNA = {nm: dict(nrexcl=1, atoms=[("BB", "D" + nm[1:], 0.0, 72.0, 1)], inter={})
       for nm in ["DA", "DT", "DG", "DC", "DA5", "DT5", "DG5", "DC5", "DA3", "DT3", "DG3", "DC3"]}
DNA_LINK = dict(resname=list(DNA), inter={"bonds": [F.I(["BB", "+BB"], ["1", "0.3", "50"])]},
                log=[("info", "backbone bond added by the generic nucleotide link")])
EXT = {"gen_params": "out.itp", "gen_coords": "out.gro", "gen_seq": "out.json"}


def complete(prog, path):
    text = Path(path).read_text()
    if prog == "gen_params":
        itp = H.read_itp_plain(path)
        return len(itp["atoms"]) == 6 and len(itp["inter"].get("bonds", [])) == 4
    if prog == "gen_coords":
        atoms, box, lines = G.read_gro(path)
        return len(atoms) == 4 and len(box) == 3
    data = json.loads(text)
    return len(data["nodes"]) == 5


@contextlib.contextmanager
def cross_device(active):
    """os.rename answers EXDEV (temporary directory and output directory on different file systems): shutil.move then copies
    the source as it is on disk at that moment and unlinks it"""
    if not active:
        yield
        return
    import errno, os
    real = os.rename

    def rename(src, dst, *a, **k):
        raise OSError(errno.EXDEV, "Invalid cross-device link", str(src))
    os.rename = rename
    try:
        yield
    finally:
        os.rename = real


@contextlib.contextmanager
def _cwd_for(case, d):
    """relative output paths: the working directory is the output directory for the duration of the case"""
    if not case.get("relative"):
        yield
        return
    import os
    old = os.getcwd()
    (d / "out").mkdir(exist_ok=True)
    os.chdir(d / "out")
    try:
        yield
    finally:
        os.chdir(old)


def run_case(case):
    prog, stage, pstate = case["prog"], case["stage"], case["pstate"]
    viols = []
    info = f" | {prog} stage={stage} path={pstate} fault={case.get('fault', 'runtime')}"

    def bad(assertion, msg, tags=()):
        viols.append(dict(assertion=assertion, tags=list(tags), message=msg + info, case=case, detail={}))
    H.drain_deferred()
    if case.get("relative"):
        info += " output path relative"
    if case.get("xdev"):
        info += " temporary files on another file system"
    with H.tempdir() as d, _cwd_for(case, d):
        out = prepare(d, EXT[prog], pstate)
        before = listing(d / "out")
        with inject(tuple(stage) if stage else None, case.get("fault", "runtime")), cross_device(case.get("xdev")):
            exc = run_prog(prog, d, Path(EXT[prog]) if case.get("relative") else out, "a")
        after = listing(d / "out")
        if stage is None:
            if exc is not None:
                bad("program-succeeds-without-fault", f"{type(exc).__name__}: {exc}")
            elif EXT[prog] not in after or not complete(prog, out):
                bad("complete-file-after-success", f"listing {sorted(after)}")
            elif prog != "gen_seq" and pstate != "absent":
                k = 1 if pstate == "present" else 2
                bname = f"#{EXT[prog]}.{k}#"
                if bname not in after or after[bname] != before[EXT[prog]]:
                    bad("previous-file-kept-as-backup", f"listing {sorted(after)}; expected {bname} with the old content")
                if pstate == "present+backup" and after.get(f"#{EXT[prog]}.1#") != before[f"#{EXT[prog]}.1#"]:
                    bad("previous-file-kept-as-backup", "older backup was modified")
        else:
            reached = isinstance(exc, INJECTED)
            if exc is None:
                # the stage is not on the path of this input (e.g. no ligands): nothing to judge
                return dict(evals=1, keys=[], violations=[], stats={"stage_not_reached": 1, "stages_not_reached": [f"{prog}:{stage[1]}"]})
            if not reached:
                bad("harness-injection", f"unexpected {type(exc).__name__}: {exc}", ["harness"])
            post_write = stage[1] == "LOGGER.log@model"
            if post_write:
                # this stage comes after the final write: either the complete output (with backup) is in place already, or -
                # if an implementation reports before it writes - nothing was touched; a later run must not change either
                delivered = EXT[prog] in after and after != before and complete(prog, out)
                if after != before and not delivered:
                    bad("no-output-touched-on-failure", f"listing changed to an incomplete state: before {before} after {after}", ["stage:" + stage[1]])
            elif after != before:
                bad("no-output-touched-on-failure", f"listing changed: before {before} after {after}", ["stage:" + stage[1]])
            if stage[1] == "DeferredFileWriter.write":
                # the final write itself failed: this is not a stage *before* writing, only the immediate effect is judged
                H.drain_deferred()
                return dict(evals=1, keys=[f"{prog}:{stage}:{pstate}"] if pstate != "absent" else [], violations=viols,
                            stats={"faults_injected": 1}, sample=dict(prog=prog, stage=stage, pstate=pstate))
            # a later successful run to another path must not deliver the failed run's output either
            out2 = d / "out" / ("second_" + EXT[prog])
            exc2 = run_prog(prog, d, Path("second_" + EXT[prog]) if case.get("relative") else out2, "b")
            later = listing(d / "out")
            if exc2 is not None:
                bad("later-run-unaffected-by-failed-run", f"{type(exc2).__name__}: {exc2}", ["stage:" + stage[1]])
            else:
                expect = dict(after) if stage[1] == "LOGGER.log@model" else dict(before)
                if ("second_" + EXT[prog]) not in later or not complete(prog, out2):
                    bad("later-run-unaffected-by-failed-run", f"second run incomplete: {sorted(later)}", ["stage:" + stage[1]])
                later.pop("second_" + EXT[prog], None)
                if later != expect:
                    tags = ["stage:" + stage[1], "stale-deferred-write"]
                    bad("no-output-touched-on-failure", f"after a later successful run the failed run's path changed: right after the failure {expect} now {later}", tags)
        H.drain_deferred()
    key = [f"{prog}:{stage}:{pstate}:{bool(case.get('relative'))}:{bool(case.get('xdev'))}"] if pstate != "absent" else []
    return dict(evals=1, keys=key, violations=viols, stats={"faults_injected": int(stage is not None)},
                sample=dict(prog=prog, stage=stage, pstate=pstate))


def finalize(agg, tier):
    st = agg["stats"]
    if st.get("stage_not_reached", 0) > 9:
        return [f"{st['stage_not_reached']} injected stages were never reached"]
    return []
