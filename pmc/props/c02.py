"""C02 - links are applied exactly where their definition matches (processor level, .ff syntax;
the dangling .itp part is in c02's second case family)."""
from .. import gp_cases, gp_run

PID = "C02"
LEVEL = "exploration"
RULE = ("force fields = 4 blocks (1-4 atoms) + every ordered subset of <=2 (quick) / selected triples (thorough) of a 17-template "
        "link alphabet (+n, >, <, *, 3- and 4-residue, resname choices, per-atom resnames, extra attribute selector, replace, "
        "atom removal, [edges], [non-edges], [patterns], versions, override pairs, circular linktype) x every connected residue "
        "graph with n<=4 (5 thorough) nodes under all n!/|Aut| residue-id labellings x all resname assignments x tag / linktype "
        "placements; each input is pushed through MapToMolecule+ApplyLinks and compared exactly (interactions, parameters, meta, "
        "edges, replaced attributes) with the brute-force reference; plus 220 composite links (order x pairs of link-language features), "
        "90 three-residue angle links over every admissible triple of order prefixes in every listing order, dangling .itp "
        "interactions, and explicit by_atom_id links (every ordered atom pair / triple, alone and in pairs, after ordinary links). "
        "non-trivial = >=1 link match applied and >=1 candidate rejected")
ASSUMPTIONS = ["reference model pmc/ref_genparams.py is the literal reading of the property (induced residue match, vermouth's documented order table)",
               "replace only rewrites attributes no selector reads (otherwise match-order dependent by design)"]
BUDGET = {"quick": 600, "thorough": 3000}


def cases(tier):
    nmax = 4 if tier == "quick" else 5
    for variant in gp_cases.ff_variants(tier):
        for n in range(1, nmax + 1):
            if n == 5 and len(variant["links"]) > 1:
                continue
            yield {"variant": variant, "n": n, "tier": tier}


def run_case(case):
    return gp_run.run_case(case, "C02")


# ------------------------------------------------------------------ dangling interactions in monomer .itp files
import itertools as _it, json as _json
from .. import ffmodel as _F, gp_harness as _H, ref_genparams as _R
from ..runner import crash_violation as _crash
from ..enum_graphs import labelled_graphs as _labelled

# block A has 2 atoms (BB=1, SA=2): index 3 = +BB, 4 = +SA, 5 = ++BB, 7 = +++BB
DANGLING = {
    "bond": ("bonds", (1, 3), ("1", "0.40", "500")),
    "sidebond": ("bonds", (2, 3), ("1", "0.36", "360")),
    "angle": ("angles", (1, 3, 5), ("2", "130", "40")),
    "dihedral": ("dihedrals", (1, 3, 5, 7), ("1", "60", "3", "2")),
    "pair-skip": ("pairs", (1, 5), ("1",)),
    "excl-next": ("exclusions", (2, 3), ()),
    # the atom of the next residue is not the last one listed
    "bond-rev": ("bonds", (3, 2), ("1", "0.41", "510")),
    "angle-rev": ("angles", (5, 3, 1), ("2", "131", "41")),
    "angle-next-first": ("angles", (3, 1, 2), ("2", "132", "42")),
    # several terms on the same atoms, with and without another interaction listed between them
    "dih9-a": ("dihedrals", (1, 3, 5, 7), ("9", "0", "1.5", "1")),
    "dih9-b": ("dihedrals", (1, 3, 5, 7), ("9", "180", "2.5", "2")),
    "dih9-side": ("dihedrals", (2, 3, 5, 7), ("9", "30", "0.5", "1")),
}
DANGLING_ORDERED = [["dih9-a", "dih9-b", "dih9-side"], ["dih9-a", "dih9-side", "dih9-b"], ["dih9-side", "dih9-b", "dih9-a"], ["dih9-b", "dih9-side", "dih9-a", "bond"]]


def _dangling_cases(tier):
    names = [n for n in DANGLING if not n.startswith("dih9")]
    sets = [[n] for n in names] + [list(c) for c in _it.combinations(names, 2)] + DANGLING_ORDERED
    for ds in sets:
        yield dict(kind="dangling-linear", dangling=ds, tier=tier)
    for ds in [[n] for n in ("bond", "sidebond", "angle", "dihedral", "bond-rev", "angle-rev", "angle-next-first")] + [["bond", "angle"], ["bond", "dihedral"]]:
        for n in (2, 3, 4):
            yield dict(kind="dangling-graph", dangling=ds, n=n, tier=tier)


def _itp_text(ds):
    dang = {}
    for d in ds:
        sec, atoms, params = DANGLING[d]
        dang.setdefault(sec, []).append((atoms, params, {}))
    return _F.render_block_itp("A", _F.BLOCKS["A"], dangling=dang) + _F.render_block_itp("C", _F.BLOCKS["C"]) + _F.render_block_itp("B", _F.BLOCKS["B"])


def _observed(ff_text, rg):
    mm, missing = _H.run_processors(_H.parse_ff([("itp", ff_text)]), _H.build_resgraph(rg))
    dg = _H.mol_digest(mm.molecule)
    pos = {a["key"]: i for i, a in enumerate(dg["atoms"])}
    inter = sorted((sec, tuple(pos[x] for x in at), tuple(p)) for sec, lst in dg["inter"].items() for at, p, m in lst)
    return dg, inter


def _block_inter(rg, offs):
    out = []
    for i, rn in enumerate(rg["resnames"]):
        blk = _F.BLOCKS[rn]
        names = [a[0] for a in blk["atoms"]]
        for sec, lst in blk["inter"].items():
            for at, params, meta in lst:
                out.append((sec, tuple(offs[i] + names.index(a) for a in at), tuple(params)))
    return out


def _check_dangling_linear(case):
    viols, evals, keys = [], 0, []
    ds = case["dangling"]
    text = _itp_text(ds)
    for n in (1, 2, 3, 4, 5):
        for rn in _it.product("AC", repeat=n):
            if n == 5 and rn.count("C") > 1:
                continue
            for start in (1, 3):
                rg = dict(n=n, edges=[[i, i + 1] for i in range(n - 1)], resids=[start + i for i in range(n)], resnames=list(rn))
                evals += 1
                case1 = dict(kind="dangling1", dangling=ds, rg=rg)
                try:
                    dg, got = _observed(text, rg)
                except Exception as exc:  # noqa
                    viols.append(_crash(exc, case1, assertion="pipeline-accepts-valid-input"))
                    continue
                offs, o = [], 0
                for r in rn:
                    offs.append(o)
                    o += len(_F.BLOCKS[r]["atoms"])
                want = _block_inter(rg, offs)
                for d in ds:
                    sec, atoms, params = DANGLING[d]
                    orders = [(a - 1) // 2 for a in atoms]
                    which = [(a - 1) % 2 for a in atoms]
                    for i in range(n):
                        if i + max(orders) >= n:
                            continue           # the window does not fit inside the chain
                        if any(rn[i + o_] != "A" for o_ in orders):
                            continue           # every atom of the interaction is an atom of block A
                        want.append((sec, tuple(offs[i + o_] + w for o_, w in zip(orders, which)), tuple(params)))
                want = sorted(want)
                if got != want and len(viols) < 20:
                    lost = [x for x in want if x not in got][:3]
                    extra = [x for x in got if x not in want][:3]
                    tags = []
                    for d in ds:
                        orders = sorted({(a - 1) // 2 for a in DANGLING[d][1]})
                        if orders != list(range(orders[0], orders[-1] + 1)) and any(x[0] == DANGLING[d][0] for x in lost):
                            tags.append("dangling-interaction-skips-a-residue")
                    viols.append(dict(assertion="dangling-present-for-every-window-absent-at-the-end", tags=tags,
                                      message=f"dangling {ds} chain {''.join(rn)} start {start}: missing {lost} unexpected {extra}", case=case1, detail={}))
                if n >= 2:
                    keys.append(_json.dumps([ds, rn, start]))
    return viols, evals, keys


def _check_dangling_graph(case):
    viols, evals, keys = [], 0, []
    ds = case["dangling"]
    text = _itp_text(ds)
    a_attrs = {"BB": dict(atomname="BB", resname="A", atype="P1"), "SA": dict(atomname="SA", resname="A", atype="P2")}
    links = []
    for d in ds:
        sec, atoms, params = DANGLING[d]
        keys_ = ["+" * ((a - 1) // 2) + ("BB", "SA")[(a - 1) % 2] for a in atoms]
        links.append(dict(resname=None, atoms={k: {kk: vv for kk, vv in a_attrs[k.lstrip("+")].items() if kk != "atomname"} for k in keys_},
                          inter={sec: [_F.I(keys_, params)]}))
    spec = dict(blocks={k: _F.BLOCKS[k] for k in "ABC"}, links=links, mods={})
    n = case["n"]
    for es, rank in _labelled(n):
        for rn in _it.product("AC" if n >= 3 else "ABC", repeat=n):
            rg = dict(n=n, edges=[list(e) for e in es], resids=[1 + r for r in rank], resnames=list(rn))
            evals += 1
            case1 = dict(kind="dangling-g1", dangling=ds, rg=rg)
            try:
                exp = _R.build(spec, rg)
                dg, got = _observed(text, rg)
            except _R.Unspecified:
                continue
            except Exception as exc:  # noqa
                viols.append(_crash(exc, case1, assertion="pipeline-accepts-valid-input"))
                continue
            want = sorted((sec, at, params) for (sec, at, ver), (params, meta, origin) in exp["inter"].items())
            if got != want and len(viols) < 20:
                lost = [x for x in want if x not in got][:3]
                extra = [x for x in got if x not in want][:3]
                viols.append(dict(assertion="dangling-behaves-as-equivalent-link", tags=[],
                                  message=f"dangling {ds} rg={_json.dumps(rg)}: missing {lost} unexpected {extra}", case=case1, detail={}))
            keys.append(_json.dumps([ds, rg], sort_keys=True))
    return viols, evals, keys


_core_cases, _core_run = cases, run_case


def _composite_cases(tier):
    # every (order, pair of modifiers) as the only link and after the generic backbone link (so that vetoes see edges)
    for name in _F.composite_names():
        nmods = len(name.split(":")[2].split("+"))
        for pre in ([], ["bb"]):
            if tier == "quick" and pre and not any(m in name for m in ("nonedge", "rm", "ver", "repl")):
                continue
            for n in (2, 3) + ((4,) if (tier == "thorough" or nmods == 1) else ()):
                yield {"variant": {"links": pre + [name]}, "n": n, "tier": tier}


def _ord3_cases(tier):
    # three-residue links: every admissible triple of order prefixes in every listing order
    for name in _F.ord3_names():
        for n in (3, 4):
            yield {"variant": {"links": [name], "names": ["A", "B"] if n == 3 else ["A"]}, "n": n, "tier": tier}


# ------------------------------------------------------------------ explicit links (atoms given by number, [ molmeta ] by_atom_id)
def _explicit_cases(tier):
    for seq in (["A", "A"], ["A", "B"], ["C", "A"], ["A", "B", "A"]):
        for pre in (["bb"], ["bb", "a_c"]):
            yield dict(kind="explicit", seq=seq, pre=pre, tier=tier)


def _check_explicit(case):
    """every ordered atom pair as an explicit bond and every ordered triple (n<=5 atoms) as an explicit angle, alone and two
    at a time in one link: the interaction is present with the link's parameters on exactly those atoms, replaces an
    interaction listing the same atoms in the same order (explicit links come last), adds the edges between consecutive
    atoms and leaves everything else as the reference build without the explicit link"""
    viols, evals, keys = [], 0, []
    seq, pre = case["seq"], case["pre"]
    spec = gp_cases.make_spec({"links": pre, "blocks": "ABCD"})
    ff_txt = _F.render_ff(spec)
    n = len(seq)
    rg = dict(n=n, edges=[[i, i + 1] for i in range(n - 1)], resids=[1 + i for i in range(n)], resnames=list(seq))
    base = _R.build(spec, rg)
    nat = len(base["atoms"])
    base_inter = {(sec, at): params for (sec, at, ver), (params, meta, origin) in base["inter"].items()}
    base_edges = {frozenset(e) for e in base["edges"] if len(e) == 2}
    singles = [("bonds", (a, b)) for a in range(nat) for b in range(nat) if a != b]
    if nat <= 5:
        singles += [("angles", t) for t in _it.permutations(range(nat), 3)]
    combos = [[x] for x in singles] + [[x, y] for x, y in zip(singles, singles[7:] + singles[:7])]
    for combo in combos:
        lines, want, edges = {}, dict(base_inter), set(base_edges)
        for k, (sec, at) in enumerate(combo):
            params = ("1", f"0.9{k}", f"77{k}") if sec == "bonds" else ("2", f"9{k}", f"66{k}")
            lines.setdefault(sec, []).append(" ".join(str(x + 1) for x in at) + " " + " ".join(params))
            want[(sec, at)] = params
            edges |= {frozenset(p) for p in zip(at[:-1], at[1:])}
        link = "[ link ]\n[ molmeta ]\nby_atom_id true\n" + "".join(f"[ {sec} ]\n" + "\n".join(ls) + "\n" for sec, ls in lines.items())
        evals += 1
        case1 = dict(kind="explicit1", seq=seq, pre=pre, combo=[[sec, list(at)] for sec, at in combo])
        try:
            mm, _ = _H.run_processors(_H.parse_ff([("ff", ff_txt), ("ff", link)]), _H.build_resgraph(rg))
        except Exception as exc:  # noqa
            viols.append(_crash(exc, case1, assertion="pipeline-accepts-valid-input", tags=["explicit-link"]))
            continue
        dg = _H.mol_digest(mm.molecule)
        pos = {a["key"]: i for i, a in enumerate(dg["atoms"])}
        got = sorted((sec, tuple(pos[x] for x in at), tuple(p)) for sec, lst in dg["inter"].items() for at, p, m in lst)
        exp = sorted((sec, at, tuple(params)) for (sec, at), params in want.items())
        if got != exp and len(viols) < 20:
            lost = [x for x in exp if x not in got][:3]
            extra = [x for x in got if x not in exp][:3]
            viols.append(dict(assertion="explicit-link-applied-exactly", tags=["explicit-link"],
                              message=f"sequence {seq} links {pre} explicit {combo}: missing {lost} unexpected {extra}", case=case1, detail={}))
        gedges = {frozenset((pos[a], pos[b])) for a, b in dg["edges"]}
        if gedges != edges and len(viols) < 20:
            viols.append(dict(assertion="explicit-link-makes-its-edges", tags=["explicit-link"],
                              message=f"sequence {seq} explicit {combo}: edges {sorted(map(sorted, gedges))} expected {sorted(map(sorted, edges))}", case=case1, detail={}))
        keys.append(_json.dumps([seq, pre, [[sec, list(at)] for sec, at in combo]]))
    return viols, evals, keys


def _replace_vs_selector_cases(tier):
    # a link that rewrites the atom type another link selects by, in both orders of definition
    for links in (["repl_type", "sel_type"], ["sel_type", "repl_type"], ["repl_type", "sel_type", "bb"]):
        for n in (2, 3, 4):
            yield {"variant": {"links": links, "names": ["A", "C"] if n < 4 else ["A"]}, "n": n, "tier": tier}


def cases(tier):          # noqa: F811
    yield from _explicit_cases(tier)
    yield from _replace_vs_selector_cases(tier)
    yield from _core_cases(tier)
    yield from _dangling_cases(tier)
    yield from _composite_cases(tier)
    yield from _ord3_cases(tier)


def run_case(case):       # noqa: F811
    kind = case.get("kind")
    if kind in ("dangling-linear", "dangling1"):
        if kind == "dangling1":
            v, e, k = _check_dangling_linear(dict(kind="dangling-linear", dangling=case["dangling"], tier="quick"))
            v = [x for x in v if x["case"]["rg"] == case["rg"]]
            return dict(evals=1, keys=[], violations=v, stats={})
        v, e, k = _check_dangling_linear(case)
        return dict(evals=e, keys=k, violations=v, stats={"inputs_dangling_linear": e}, sample=dict(case))
    if kind in ("dangling-graph", "dangling-g1"):
        if kind == "dangling-g1":
            v, e, k = _check_dangling_graph(dict(kind="dangling-graph", dangling=case["dangling"], n=case["rg"]["n"], tier="quick"))
            v = [x for x in v if x["case"]["rg"] == case["rg"]]
            return dict(evals=1, keys=[], violations=v, stats={})
        v, e, k = _check_dangling_graph(case)
        return dict(evals=e, keys=k, violations=v, stats={"inputs_dangling_graph": e}, sample=dict(case))
    if kind in ("explicit", "explicit1"):
        if kind == "explicit1":
            v, e, k = _check_explicit(dict(kind="explicit", seq=case["seq"], pre=case["pre"], tier="quick"))
            v = [x for x in v if x["case"]["combo"] == case["combo"]]
            return dict(evals=1, keys=[], violations=v, stats={})
        v, e, k = _check_explicit(case)
        return dict(evals=e, keys=k, violations=v, stats={"inputs_explicit": e}, sample=dict(case))
    return _core_run(case)
