"""C02 - links are applied exactly where their definition matches (processor level, .ff syntax;
the dangling .itp part is in c02's second case family)."""
from .. import gp_cases, gp_run

PID = "C02"
LEVEL = "exploration"
RULE = ("force fields = 4 blocks (1-4 atoms) + every ordered subset of <=2 (quick) / selected triples (thorough) of a 17-template "
        "link alphabet (+n, >, <, *, 3- and 4-residue, resname choices, per-atom resnames, extra attribute selector, replace, "
        "atom removal, [edges], [non-edges], [patterns], versions, override pairs, circular linktype) x every connected residue "
        "graph with n<=4 (5 thorough) nodes under all n!/|Aut| residue-id labellings x all resname assignments x tag / linktype "
        "placements; each input is pushed through MapToMolecule+ApplyLinks and compared exactly (interactions, parameters, meta, "
        "edges, replaced attributes) with the brute-force reference. non-trivial = >=1 link match applied and >=1 candidate rejected")
ASSUMPTIONS = ["reference model pmc/ref_genparams.py is the literal reading of the property (induced residue match, vermouth's documented order table)",
               "replace only rewrites attributes no selector reads (otherwise match-order dependent by design)"]
BUDGET = {"quick": 600, "thorough": 3000}


def cases(tier):
    nmax = 4 if tier == "quick" else 5
    for variant in gp_cases.ff_variants(tier):
        for n in range(1, nmax + 1):
            if n == 5 and len(variant["links"]) > 1:
                continue
            yield {"variant": variant, "n": n, "tier": tier}


def run_case(case):
    return gp_run.run_case(case, "C02")
