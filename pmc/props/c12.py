"""C12 - sequence inputs produce exactly the specified residue graph (E3)."""
import itertools, json
from pathlib import Path
from .. import gp_harness as H
from ..runner import crash_violation

PID = "C12"
LEVEL = "exploration"
RULE = ("all DNA and RNA letter strings with 2<=L<=5 (quick; 6 thorough) and every protein letter at every position of frames of "
        "length 1-3 plus all protein pairs, through .fasta and .ig (linear terminator 1, circular terminator 2) under every line "
        "breaking (all 2^(L-1) compositions); .txt files over residue names of 1-4 characters with every line breaking; -seq lists "
        "name:n with n<=3 and <=3 entries; gen_seq: macro strings levels 1-3 x branching 1-3 x one or two residue names with "
        "probability 1, all sequences of <=3 macros, all valid single connect records between consecutive macros, terminal "
        "renamings and labels, macros and labels drawing from 2-3 values (every outcome of the draws, weights 0 included); the .json gen_seq writes is read back through MetaMolecule.from_sequence_file. Oracle (independent "
        "tables and tree arithmetic): node count, residue names incl. 5'/3' suffixes, resid = position from 1, edge set, circular "
        "closing edge labelled linktype=circle, JSON round trip identical. distinct_nontrivial = inputs with >=2 residues")
ASSUMPTIONS = ["single-nucleotide DNA/RNA sequences are not judged (a residue cannot be 5' and 3' terminal at once)",
               "connect records use the 0-based macro and residue indices the tool implements",
               "the letter U is outside the tool's RNA alphabet (T is translated to U)"]
BUDGET = {"quick": 420, "thorough": 2400}

AA3 = {"G": "GLY", "A": "ALA", "V": "VAL", "L": "LEU", "I": "ILE", "M": "MET", "F": "PHE", "W": "TRP", "P": "PRO", "S": "SER",
       "T": "THR", "C": "CYS", "Y": "TYR", "N": "ASN", "Q": "GLN", "D": "ASP", "E": "GLU", "K": "LYS", "R": "ARG", "H": "HIS",
       "O": "HYP"}


def ref_names(kind, seq, circular=False):
    if kind == "DNA":
        names = ["D" + c for c in seq]
    elif kind == "RNA":
        names = [("U" if c == "T" else c) for c in seq]
    else:
        return [AA3[c] for c in seq]
    if not circular:
        names[0] += "5"
        names[-1] += "3"
    return names


def compositions(n):
    """all ways to break n letters into lines"""
    for cuts in itertools.product([0, 1], repeat=n - 1):
        parts, start = [], 0
        for i, c in enumerate(cuts, 1):
            if c:
                parts.append((start, i))
                start = i
        parts.append((start, n))
        yield parts


def graph_view(mm):
    nodes = [(k, mm.nodes[k].get("resname"), mm.nodes[k].get("resid")) for k in mm.nodes]
    edges = sorted((tuple(sorted((a, b))), tuple(sorted(d.items()))) for a, b, d in mm.edges(data=True))
    return nodes, edges


def expect_linear(names, circular=False):
    n = len(names)
    nodes = [(i, names[i], i + 1) for i in range(n)]
    edges = [((i, i + 1), ()) for i in range(n - 1)]
    if circular:
        if n == 2:
            edges = [((0, 1), (("linktype", "circle"),))]
        else:
            edges.append(((0, n - 1), (("linktype", "circle"),)))
    return nodes, sorted(edges)


def from_file(d, fname, text):
    from polyply.src.meta_molecule import MetaMolecule
    p = d / fname
    p.write_text(text)
    return MetaMolecule.from_sequence_file(None, p, "mol")


# ------------------------------------------------------------------ case families
def cases(tier):
    L = 5 if tier == "quick" else 6
    for kind in ("DNA", "RNA"):
        for n in range(2, L + 1):
            seqs = ["".join(s) for s in itertools.product("ACGT", repeat=n)]
            for i in range(0, len(seqs), 32):
                yield dict(kind="nuc", alpha=kind, seqs=seqs[i:i + 32], tier=tier)
    letters = sorted(AA3)
    prot = [a for a in letters] + [a + b for a in letters for b in letters] + \
           [f[:i] + a + f[i + 1:] for f in ("GAV", "KDE") for i in range(3) for a in letters] + \
           ["RNA", "DNA", "GRNAK", "KDNAG", "RNADNA"]      # protein sequences whose letters spell the keywords of the other kinds
    for i in range(0, len(prot), 60):
        yield dict(kind="prot", seqs=prot[i:i + 60], tier=tier)
    yield dict(kind="dress", alpha="DNA", tier=tier)
    yield dict(kind="dress", alpha="RNA", tier=tier)
    yield dict(kind="txt", tier=tier)
    yield dict(kind="seqopt", tier=tier)
    for lv, bf in itertools.product((1, 2, 3), (1, 2, 3)):
        yield dict(kind="genseq", levels=lv, bfact=bf, tier=tier)
    yield dict(kind="badletters", tier=tier)
    yield dict(kind="genseqfile", tier=tier)
    yield dict(kind="genseqrand", tier=tier)


def check_nuc(case):
    viols, evals, keys = [], 0, []
    kind = case["alpha"]
    with H.tempdir() as d:
        for seq in case["seqs"]:
            for parts in compositions(len(seq)):
                body = "\n".join(seq[a:b] for a, b in parts)
                variants = [("fasta", "x.fasta", f">seq1 some {kind} sequence\n{body}\n", False),
                            ("ig-linear", "x.ig", f"; a {kind} test sequence\n; second comment\nTITLELINE\n{body}1\n", False),
                            ("ig-circular", "x.ig", f"; a {kind} test sequence\nTITLELINE\n{body}2\n", True)]
                for fmt, fname, text, circ in variants:
                    evals += 1
                    case1 = dict(kind="nuc1", alpha=kind, fmt=fmt, fname=fname, text=text, seq=seq, circ=circ)
                    try:
                        mm = from_file(d, fname, text)
                    except Exception as exc:  # noqa
                        viols.append(crash_violation(exc, case1, assertion="sequence-file-readable"))
                        continue
                    want = expect_linear(ref_names(kind, seq, circ), circ)
                    got = graph_view(mm)
                    if got != want and len(viols) < 20:
                        viols.append(dict(assertion="residue-graph-as-specified", tags=[f"fmt:{fmt}"],
                                          message=f"{fmt} {kind} {seq!r} lines {parts}: got {got} expected {want}", case=case1, detail={}))
            keys.append(f"{kind}:{seq}")
    return viols, evals, keys


def check_dress(case):
    """the same sequences in files with everything the formats allow around them: further records, blank lines, trailing
    blanks, Windows line ends, comments after the sequence, the terminator on its own line"""
    viols, evals, keys = [], 0, []
    kind = case["alpha"]
    with H.tempdir() as d:
        for L in (2, 3):
            for seq in map("".join, itertools.product("ACGT", repeat=L)):
                h, t = seq[:1], seq[1:]
                variants = [
                    ("fasta", "second-record", f">seq1 {kind}\n{seq}\n>seq2 {kind}\nGGGG\n", False),
                    ("fasta", "second-record-other-kind", f">seq1 {kind}\n{seq}\n>seq2 PROTEIN\nKKKK\n", False),
                    ("fasta", "trailing-blank-lines", f">seq1 {kind}\n{seq}\n\n\n", False),
                    ("fasta", "blank-line-inside", f">seq1 {kind}\n{h}\n\n{t}\n", False),
                    ("fasta", "trailing-spaces", f">seq1 {kind}\n{h}  \n{t} \n", False),
                    ("fasta", "crlf", f">seq1 {kind}\r\n{h}\r\n{t}\r\n", False),
                    ("fasta", "no-final-newline", f">seq1 {kind}\n{seq}", False),
                    ("ig", "second-record", f"; {kind}\nT1\n{seq}1\n; {kind}\nT2\nGGGG1\n", False),
                    ("ig", "second-record-circular-first", f"; {kind}\nT1\n{seq}2\n; {kind}\nT2\nGGGG1\n", True),
                    ("ig", "terminator-own-line", f"; {kind}\nT1\n{seq}\n1\n", False),
                    ("ig", "terminator-own-line-circular", f"; {kind}\nT1\n{h}\n{t}\n2\n", True),
                    ("ig", "comment-after-sequence", f"; {kind}\nT1\n{h} ; first part\n{t}1 ; done\n", False),
                    ("ig", "blank-line-inside", f"; {kind}\nT1\n{h}\n\n{t}1\n", False),
                    ("ig", "crlf", f"; {kind}\r\nT1\r\n{h}\r\n{t}1\r\n", False),
                    ("ig", "title-ends-in-2-linear", f"; {kind}\nchr2\n{seq}1\n", False),
                    ("ig", "title-ends-in-1-circular", f"; {kind}\nSEQ1\n{seq}2\n", True),
                    ("ig", "title-is-a-digit", f"; {kind}\n1\n{seq}1\n", False),
                    ("ig", "three-comments", f"; one\n; two {kind}\n; three\nT1\n{seq}1\n", False),
                    ("ig", "title-names-another-kind", f"; {kind}\nPROTEIN binding site\n{seq}1\n", False),
                    ("ig", "no-final-newline", f"; {kind}\nT1\n{seq}2", True),
                ]
                for fmt, dress, text, circ in variants:
                    evals += 1
                    case1 = dict(kind="dress1", alpha=kind, fmt=fmt, dress=dress, text=text, seq=seq, circ=circ)
                    try:
                        mm = from_file(d, "x." + fmt, text)
                    except Exception as exc:  # noqa
                        viols.append(crash_violation(exc, case1, assertion="sequence-file-readable", tags=[f"dress:{dress}"]))
                        continue
                    want = expect_linear(ref_names(kind, seq, circ), circ)
                    got = graph_view(mm)
                    if got != want and len(viols) < 20:
                        viols.append(dict(assertion="residue-graph-as-specified", tags=[f"fmt:{fmt}", f"dress:{dress}"],
                                          message=f"{fmt} {kind} {seq!r} ({dress}): got {got} expected {want}", case=case1, detail={}))
                    keys.append(f"dress:{kind}:{fmt}:{dress}:{seq}")
    return viols, evals, keys


def check_prot(case):
    viols, evals, keys = [], 0, []
    with H.tempdir() as d:
        for seq in case["seqs"]:
            for parts in compositions(len(seq)):
                body = "\n".join(seq[a:b] for a, b in parts)
                for fmt, fname, text in (("fasta", "p.fasta", f">sp|P1 PROTEIN test\n{body}\n"),
                                         ("ig-linear", "p.ig", f"; PROTEIN sequence\nTITLE\n{body}1\n"),
                                         ("ig-linear", "p.ig", f"; PROTEIN sequence\nDNA polymerase, RNA binding\n{body}1\n"),
                                         ("ig-circular", "p.ig", f"; PROTEIN sequence\nTITLE\n{body}2\n")):
                    evals += 1
                    case1 = dict(kind="prot1", fmt=fmt, fname=fname, text=text, seq=seq)
                    try:
                        mm = from_file(d, fname, text)
                    except Exception as exc:  # noqa
                        viols.append(crash_violation(exc, case1, assertion="sequence-file-readable"))
                        continue
                    want = expect_linear(ref_names("AA", seq), fmt == "ig-circular")
                    got = graph_view(mm)
                    if got != want and len(viols) < 20:
                        viols.append(dict(assertion="residue-graph-as-specified", tags=[f"fmt:{fmt}"],
                                          message=f"{fmt} protein {seq!r}: got {got} expected {want}", case=case1, detail={}))
            if len(seq) >= 2:
                keys.append(f"AA:{seq}")
    return viols, evals, keys


def check_txt(case):
    viols, evals, keys = [], 0, []
    names = ["A", "PEO", "P3HT", "DA5", "x1"]
    with H.tempdir() as d:
        for n in range(1, 5):
            for seq in itertools.product(names, repeat=n):
                if n == 4 and seq[0] != "PEO":
                    continue
                for parts, ending in itertools.product(compositions(n), ("\n", "", "\r\n", " \n")):
                    if ending != "\n" and n > 2:
                        continue          # file endings (no final newline, CRLF, trailing blank) on the short sequences
                    sep = "\r\n" if ending == "\r\n" else "\n"
                    text = sep.join(" ".join(seq[a:b]) for a, b in parts) + ending
                    evals += 1
                    case1 = dict(kind="txt1", text=text, seq=list(seq))
                    try:
                        mm = from_file(d, "s.txt", text)
                    except Exception as exc:  # noqa
                        viols.append(crash_violation(exc, case1, assertion="sequence-file-readable"))
                        continue
                    want = expect_linear(list(seq))
                    got = graph_view(mm)
                    if got != want and len(viols) < 20:
                        viols.append(dict(assertion="residue-graph-as-specified", tags=["fmt:txt"],
                                          message=f"txt {seq} lines {parts}: got {got} expected {want}", case=case1, detail={}))
                if n >= 2:
                    keys.append("txt:" + " ".join(seq))
    return viols, evals, keys


def check_seqopt(case):
    from polyply.src.meta_molecule import MetaMolecule
    from polyply.src.gen_itp import split_seq_string
    viols, evals, keys = [], 0, []
    names = ["A", "PEO", "B3"]
    for k in (1, 2, 3):
        for entry in itertools.product(itertools.product(names, (1, 2, 3)), repeat=k):
            seqopt = [f"{n}:{c}" for n, c in entry]
            evals += 1
            case1 = dict(kind="seqopt1", seq=seqopt)
            try:
                mm = MetaMolecule.from_monomer_seq_linear(force_field=None, monomers=split_seq_string(seqopt), mol_name="mol")
            except Exception as exc:  # noqa
                viols.append(crash_violation(exc, case1, assertion="sequence-option-accepted"))
                continue
            flat = [n for n, c in entry for _ in range(c)]
            want = expect_linear(flat)
            got = graph_view(mm)
            if got != want and len(viols) < 20:
                viols.append(dict(assertion="residue-graph-as-specified", tags=["fmt:seq-option"], message=f"-seq {seqopt}: got {got} expected {want}", case=case1, detail={}))
            if len(flat) >= 2:
                keys.append("seq:" + ",".join(seqopt))
    return viols, evals, keys


def tree_edges(levels, bfact):
    n = sum(bfact ** k for k in range(levels))
    return n, [((i - 1) // bfact, i) for i in range(1, n)]


def check_genseq(case):
    from polyply.src.gen_seq import gen_seq
    from polyply.src.meta_molecule import MetaMolecule
    viols, evals, keys = [], 0, []
    lv, bf = case["levels"], case["bfact"]
    macros = {"X": (lv, bf, "PEO"), "Y": (2, 1, "PPO"), "Z": (1, 1, "OH")}
    mstrings = [f"{k}:{v[0]}:{v[1]}:{v[2]}-1.0" for k, v in macros.items()]
    with H.tempdir() as d:
        for k in (1, 2, 3):
            for seq in itertools.product("XYZ", repeat=k):
                if "X" not in seq:
                    continue
                sizes = [tree_edges(macros[m][0], macros[m][1])[0] for m in seq]
                # connect options between consecutive macros: none, or one record joining residue a of block i to b of block i+1
                conn_opts = [[]]
                if k >= 2:
                    recs = [[f"{i}:{i + 1}:{a}-{b}"] for i in range(k - 1) for a in {0, sizes[i] - 1} for b in {0, sizes[i + 1] - 1}]
                    conn_opts += recs
                    # one record with several comma separated edges (ring closure / cross link between two blocks)
                    conn_opts.append([f"0:1:{sizes[0] - 1}-0,0-{sizes[1] - 1}"])
                    # records that name the later block first (residue a then belongs to the later block)
                    conn_opts += [[f"1:0:{a}-{b}"] for a in sorted({0, sizes[1] - 1}) for b in sorted({0, sizes[0] - 1}) if a != b]
                    if k == 3:
                        conn_opts.append([f"0:1:{sizes[0] - 1}-0", f"1:2:{sizes[1] - 1}-0"])
                        conn_opts.append([f"0:2:0-0,{sizes[0] - 1}-{sizes[2] - 1}", f"1:2:0-{sizes[2] - 1}"])
                for connects in conn_opts:
                    for mods, tags in (([], []), (["0:TER"], []), ([], [f"{k - 1}:chiral:R-1.0"]), ([f"{k - 1}:END"], ["0:lab:q-1.0"])):
                        evals += 1
                        case1 = dict(kind="genseq1", macro_strings=mstrings, seq=list(seq), connects=connects, mods=mods, tags=tags)
                        out = d / "seq.json"
                        try:
                            gen_seq(name="m", outpath=out, seq=list(seq), macro_strings=mstrings, connects=connects,
                                    modifications=mods, tags=tags)
                            mm = MetaMolecule.from_sequence_file(None, out, "mol")
                        except Exception as exc:  # noqa
                            viols.append(crash_violation(exc, case1, assertion="gen_seq-output-readable"))
                            continue
                        # reference
                        names, seqids, edges, off = [], [], set(), []
                        for si, m in enumerate(seq):
                            n, es = tree_edges(macros[m][0], macros[m][1])
                            off.append(len(names))
                            names += [macros[m][2]] * n
                            seqids += [si] * n
                            edges |= {frozenset((off[-1] + a, off[-1] + b)) for a, b in es}
                        for rec in connects:
                            i, j, abs_ = rec.split(":")
                            for ab in abs_.split(","):
                                a, b = ab.split("-")
                                edges.add(frozenset((off[int(i)] + int(a), off[int(j)] + int(b))))
                        deg = {i: 0 for i in range(len(names))}
                        for e in edges:
                            for x in e:
                                deg[x] += 1
                        for mod in mods:
                            si, newname = mod.split(":")
                            for i in range(len(names)):
                                if seqids[i] == int(si) and deg[i] == 1:
                                    names[i] = newname
                        labels = {i: {} for i in range(len(names))}
                        for tag in tags:
                            si, attr, vp = tag.split(":")
                            for i in range(len(names)):
                                if seqids[i] == int(si):
                                    labels[i][attr] = vp.split("-")[0]
                        got_nodes = [(kk, mm.nodes[kk].get("resname"), mm.nodes[kk].get("resid"), mm.nodes[kk].get("seqid"),
                                      {a: v for a, v in mm.nodes[kk].items() if a in ("chiral", "lab")}) for kk in mm.nodes]
                        want_nodes = [(i, names[i], i + 1, seqids[i], labels[i]) for i in range(len(names))]
                        got_edges = {frozenset(e) for e in mm.edges}
                        if (got_nodes != want_nodes or got_edges != edges) and len(viols) < 20:
                            viols.append(dict(assertion="gen_seq-graph-as-specified", tags=[],
                                              message=f"macros {mstrings} seq {seq} connects {connects} mods {mods} tags {tags}: nodes {got_nodes} expected {want_nodes}; "
                                                      f"edges {sorted(map(sorted, got_edges))} expected {sorted(map(sorted, edges))}", case=case1, detail={}))
                        # JSON round trip: write the read graph again and read it back
                        try:
                            import networkx as nx
                            g = nx.Graph()
                            g.add_nodes_from(mm.nodes(data=True))
                            g.add_edges_from(mm.edges(data=True))
                            for n_ in g.nodes:
                                g.nodes[n_].pop("build", None)
                                g.nodes[n_].pop("backmap", None)
                            H.write_json_graph(d / "again.json", g)
                            mm2 = MetaMolecule.from_sequence_file(None, d / "again.json", "mol")
                            if graph_view(mm2) != graph_view(mm):
                                viols.append(dict(assertion="json-round-trip", tags=[], message=f"{graph_view(mm2)} vs {graph_view(mm)}", case=case1, detail={}))
                        except Exception as exc:  # noqa
                            viols.append(crash_violation(exc, case1, assertion="json-round-trip"))
                        if len(names) >= 2:
                            keys.append(json.dumps([lv, bf, seq, connects, mods, tags]))
    return viols, evals, keys


FILE_ITP = """[ moleculetype ]
M 1
[ atoms ]
1 X1 1 MA x1 1 0.1 10.0
2 X2 1 MA x2 2 0.2 11.0
3 Y1 2 MB y1 3 -0.3 12.0
[ bonds ]
1 2 1 0.21 2100
2 3 1 0.22 2200
[ moleculetype ]
TRI 1
[ atoms ]
1 Q1 1 QA q 1 0.0 10.0
2 Q1 2 QB q 2 0.0 10.0
3 Q1 3 QA q 3 0.0 10.0
4 Q1 4 QC q 4 0.0 10.0
[ bonds ]
1 2 1 0.2 100
2 3 1 0.2 100
2 4 1 0.2 100
"""
FILE_MACROS = {"M": (["MA", "MB"], [(0, 1)]), "TRI": (["QA", "QB", "QA", "QC"], [(0, 1), (1, 2), (1, 3)])}


def check_genseq_random(case):
    """macros and tags that draw from several values: every outcome of the draws (a chooser stands behind random.choices in
    gen_seq) - the value written for each residue is the one drawn for it, values of weight 0 are never offered"""
    import types
    import polyply.src.gen_seq as gs
    from polyply.src.gen_seq import gen_seq
    from polyply.src.meta_molecule import MetaMolecule
    from ..explore_choice import explore
    viols, evals, keys = [], 0, []
    real_random = gs.random
    specs = [("X:2:1:PEO-0.5,PPO-0.5", ["PEO", "PPO"], [0.5, 0.5]), ("X:2:1:PEO-1.0,PPO-0.0", ["PEO", "PPO"], [1.0, 0.0]),
             ("X:2:1:PEO-0.0,PPO-1.0", ["PEO", "PPO"], [0.0, 1.0]), ("X:3:1:PEO-0.2,PPO-0.3,PS-0.5", ["PEO", "PPO", "PS"], [0.2, 0.3, 0.5]),
             ("X:2:2:PEO-0.0,PPO-0.7,PS-0.3", ["PEO", "PPO", "PS"], [0.0, 0.7, 0.3])]
    tag_opts = [[], ["0:chiral:R-0.5,S-0.5"], ["0:chiral:R-0.0,S-1.0"]]
    with H.tempdir() as d:
        for mstring, values, weights in specs:
            for tags in tag_opts:
                out = d / "seq.json"

                def run(ch):
                    drawn = []

                    def choices(population, weights=None, k=1):
                        allowed = [i for i, w in enumerate(weights) if w > 0]
                        c = ch.choose("rng", len(allowed), 0)
                        drawn.append(population[allowed[c]])
                        return [population[allowed[c]]]
                    gs.random = types.SimpleNamespace(seed=lambda *a, **k: None, choices=choices)
                    try:
                        gen_seq(name="m", outpath=out, seq=["X"], macro_strings=[mstring], connects=[], modifications=[], tags=tags)
                        mm = MetaMolecule.from_sequence_file(None, out, "mol")
                        return dict(exc=None, drawn=drawn, nodes=[(mm.nodes[n].get("resname"), mm.nodes[n].get("chiral")) for n in mm.nodes])
                    except Exception as exc:  # noqa
                        return dict(exc=exc, drawn=drawn, nodes=None)
                    finally:
                        gs.random = real_random
                for prefix, ch, res in explore(run, {"rng": 10, "*": 10}):
                    evals += 1
                    case1 = dict(kind="genseqrand1", macro=mstring, tags=tags, choices=ch.choices())
                    if res["exc"] is not None:
                        viols.append(crash_violation(res["exc"], case1, assertion="gen_seq-output-readable"))
                        continue
                    n = len(res["nodes"])
                    want_names = res["drawn"][:n]
                    want_tags = res["drawn"][n:] if tags else []
                    got_names = [x[0] for x in res["nodes"]]
                    got_tags = [x[1] for x in res["nodes"]] if tags else []
                    zero = {v for v, w in zip(values, weights) if w == 0} | ({"R"} if tags and "R-0.0" in tags[0] else set())
                    if (got_names != want_names or (tags and got_tags != want_tags) or set(got_names) & zero or set(got_tags) & zero) and len(viols) < 20:
                        viols.append(dict(assertion="gen_seq-graph-as-specified", tags=["random-macro"],
                                          message=f"macro {mstring} tags {tags} draws {res['drawn']}: residues {res['nodes']}", case=case1, detail={}))
                    keys.append(json.dumps([mstring, tags, ch.choices()]))
    return viols, evals, keys


def check_genseq_file(case):
    """macros taken from molecule definitions in an input file (-from_file), mixed with string macros"""
    from polyply.src.gen_seq import gen_seq
    from polyply.src.meta_molecule import MetaMolecule
    viols, evals, keys = [], 0, []
    strings = {"X": (2, 1, "PEO")}
    with H.tempdir() as d:
        (d / "in.itp").write_text(FILE_ITP)
        for k in (1, 2, 3):
            for seq in itertools.product(["F1", "F2", "X"], repeat=k):
                if "F1" not in seq and "F2" not in seq:
                    continue
                info = {"F1": FILE_MACROS["M"], "F2": FILE_MACROS["TRI"], "X": (["PEO", "PEO"], [(0, 1)])}
                sizes = [len(info[m][0]) for m in seq]
                conn_opts = [[]]
                if k >= 2:
                    conn_opts += [[f"{i}:{i + 1}:{sizes[i] - 1}-0"] for i in range(k - 1)]
                    conn_opts.append([f"0:1:0-{sizes[1] - 1},{sizes[0] - 1}-0"])
                for connects, (mods, tags) in itertools.product(conn_opts, (([], []), (["0:TER"], [f"{k - 1}:lab:q-1.0"]))):
                    evals += 1
                    case1 = dict(kind="genseqfile1", seq=list(seq), connects=connects, mods=mods, tags=tags)
                    out = d / "seq.json"
                    try:
                        gen_seq(name="m", outpath=out, seq=list(seq), inpath=[d / "in.itp"], from_file=["F1:M", "F2:TRI"],
                                macro_strings=["X:2:1:PEO-1.0"], connects=connects, modifications=mods, tags=tags)
                        mm = MetaMolecule.from_sequence_file(None, out, "mol")
                    except Exception as exc:  # noqa
                        viols.append(crash_violation(exc, case1, assertion="gen_seq-output-readable"))
                        continue
                    names, edges, off = [], set(), []
                    for m in seq:
                        off.append(len(names))
                        names += info[m][0]
                        edges |= {frozenset((off[-1] + a, off[-1] + b)) for a, b in info[m][1]}
                    for rec in connects:
                        i, j, abs_ = rec.split(":")
                        for ab in abs_.split(","):
                            a, b = ab.split("-")
                            edges.add(frozenset((off[int(i)] + int(a), off[int(j)] + int(b))))
                    if mods:
                        # terminal renaming: residues of block 0 with exactly one neighbour in the whole sequence graph
                        deg = {i: 0 for i in range(len(names))}
                        for e in edges:
                            for x in e:
                                deg[x] += 1
                        for i in range(off[0], off[0] + sizes[0]):
                            if deg[i] == 1:
                                names[i] = "TER"
                    labelled = set(range(off[k - 1], off[k - 1] + sizes[k - 1])) if tags else set()
                    got_nodes = [(kk, mm.nodes[kk].get("resname"), mm.nodes[kk].get("resid")) for kk in mm.nodes]
                    want_nodes = [(i, names[i], i + 1) for i in range(len(names))]
                    got_edges = {frozenset(e) for e in mm.edges}
                    got_lab = {kk for kk in mm.nodes if mm.nodes[kk].get("lab") == "q"}
                    if got_lab != labelled and len(viols) < 20:
                        viols.append(dict(assertion="gen_seq-graph-as-specified", tags=["from_file", "labels"],
                                          message=f"seq {seq} connects {connects} tags {tags}: labelled {sorted(got_lab)} expected {sorted(labelled)}", case=case1, detail={}))
                    if (got_nodes != want_nodes or got_edges != edges) and len(viols) < 20:
                        viols.append(dict(assertion="gen_seq-graph-as-specified", tags=["from_file"],
                                          message=f"seq {seq} connects {connects} mods {mods}: nodes {got_nodes} expected {want_nodes}; edges {sorted(map(sorted, got_edges))} expected {sorted(map(sorted, edges))}",
                                          case=case1, detail={}))
                    keys.append(json.dumps(["file", seq, connects, mods, tags]))
    return viols, evals, keys


def check_badletters(case):
    viols, evals = [], 0
    with H.tempdir() as d:
        for kind, bad in (("DNA", "UXZ*"), ("RNA", "XZ"), ("PROTEIN", "BJXZ")):
            for ch in bad:
                for pos in range(3):
                    seq = list("ACG" if kind != "PROTEIN" else "GAV")
                    seq[pos] = ch
                    text = f">x {kind}\n{''.join(seq)}\n"
                    evals += 1
                    try:
                        mm = from_file(d, "b.fasta", text)
                    except Exception:  # noqa
                        continue
                    viols.append(dict(assertion="unknown-letter-rejected", tags=[], message=f"{kind} {''.join(seq)} accepted: {graph_view(mm)[0]}",
                                      case=dict(kind="bad1", text=text), detail={}))
    return viols, evals, []


def run_case(case):
    kind = case["kind"]
    if kind in ("nuc1", "prot1", "txt1", "dress1"):
        with H.tempdir() as d:
            mm = from_file(d, case.get("fname", ("x." + case["fmt"]) if kind == "dress1" else "s.txt"), case["text"])
        want = expect_linear(ref_names(case.get("alpha", "AA"), case["seq"], case.get("circ", False)) if kind != "txt1" else case["seq"],
                             case.get("circ", False))
        v = [] if graph_view(mm) == want else [dict(assertion="residue-graph-as-specified", tags=[], message=f"{graph_view(mm)} != {want}", case=case, detail={})]
        return dict(evals=1, keys=[], violations=v, stats={})
    if kind == "genseqrand1":
        v, _, _ = check_genseq_random(dict(kind="genseqrand", tier="quick"))
        v = [x for x in v if all(x["case"].get(k) == case.get(k) for k in ("macro", "tags", "choices"))]
        return dict(evals=1, keys=[], violations=v, stats={})
    fn = {"nuc": check_nuc, "prot": check_prot, "txt": check_txt, "seqopt": check_seqopt, "genseq": check_genseq, "genseqfile": check_genseq_file,
          "badletters": check_badletters, "dress": check_dress, "genseqrand": check_genseq_random}.get(kind)
    if fn is None:
        return dict(evals=0, keys=[], violations=[], stats={})
    v, evals, keys = fn(case)
    return dict(evals=evals, keys=keys, violations=v, stats={f"inputs_{kind}": evals},
                sample={k: (v if not isinstance(v, list) else v[:3]) for k, v in case.items()})
