"""C13 - generated topology is independent of labelling, ordering and run history (metamorphic)."""
import itertools, json, os, subprocess, sys
from .. import ffmodel as F, gp_harness as H, gp_cases, gp_run, ref_genparams as R
from ..runner import crash_violation

PID = "C13"
LEVEL = "exploration"
RULE = ("metamorphic, no reference: for every base input (link sets x all labelled connected residue graphs n<=4 x resname "
        "assignments) the canonical output (atoms table, interaction multisets, nrexcl) must be identical under ALL n! node-key "
        "relabellings (plus shifted keys), ALL n! node insertion orders, ALL 2^|E| edge orientations and all edge insertion "
        "orders (|E|<=4, else rotations+reversal), ALL orders of the block definitions, ALL orders of links that do not define "
        "the same interaction, and every split of the definitions over two input files in both orders; histories: ALL sequences "
        "of <=3 gen_params calls over 9 representative inputs (mixed exclusion distances, uniform, failing, dsDNA, atom removal, three calls naming only a package library) in one process, every call's file compared with the file a fresh process writes. "
        "non-trivial = transformed run differs from base in at least node order / definition order / history")
ASSUMPTIONS = ["residue ids are kept fixed under relabelling (as the property states)",
               "file comparison ignores the first header line (command line)"]
BUDGET = {"quick": 540, "thorough": 3000}

BASE_LINKSETS = [["bb"], ["bb", "ang3", "a_c"], ["gt", "pat"], ["lab", "edge_only"], ["circ", "bb"], ["star"], ["rm", "bb"],
                 ["ver2", "lt_sa"], ["bb", "nonedge"], ["dih4", "bb"], ["ord3:>,,>>", "bb"], ["ord3:<,>,", "gt"], ["ord3:*,,**"],
                 ["repl_type", "sel_type"], ["dup2", "bb"], ["exl", "bb"], ["open2", "open3"]]


def cases(tier):
    for links in BASE_LINKSETS:
        for n in (2, 3, 4):
            yield {"kind": "graph", "variant": {"links": links}, "n": n, "tier": tier}
    for links in BASE_LINKSETS:
        if len(links) >= 2:
            yield {"kind": "deforder", "variant": {"links": links}, "tier": tier}
    yield {"kind": "deforder", "variant": {"links": ["bb", "ang3", "a_c", "gt"][:3]}, "tier": tier, "blocks_only": True}
    yield {"kind": "fromitp", "tier": tier}
    yield {"kind": "itporder", "tier": tier}
    depth = 3 if tier == "quick" else 4
    for first in range(len(HIST_INPUTS)):
        yield {"kind": "history", "first": first, "depth": depth, "tier": tier}


def canon(mm):
    dg = H.mol_digest(mm.molecule)
    pos = {a["key"]: i for i, a in enumerate(dg["atoms"])}
    atoms = [tuple(a[k] for k in ("atomname", "atype", "resname", "resid", "charge_group", "charge", "mass")) for a in dg["atoms"]]
    inter = sorted((sec, tuple(pos[a] for a in at), tuple(params), json.dumps(meta, sort_keys=True))
                   for sec, lst in dg["inter"].items() for at, params, meta in lst)
    edges = sorted(tuple(sorted((pos[a], pos[b]))) for a, b in dg["edges"])
    return atoms, inter, edges, dg["nrexcl"]


def run_graph(ff, graph):
    try:
        mm, _ = H.run_processors(ff, graph)
    except Exception as exc:  # noqa
        return ("EXC", type(exc).__name__)
    return canon(mm)


def edge_orders(m, tier):
    idx = list(range(m))
    if m <= 4:
        return list(itertools.permutations(idx))
    out = [idx, idx[::-1]]
    for r in range(1, m):
        out.append(idx[r:] + idx[:r])
    return out


def check_graph_transforms(variant, spec, rg, stats, tier):
    viols, n = [], rg["n"]
    import networkx as nx
    base_ff = gp_run.parsed_ff(variant, spec)
    base = run_graph(base_ff, H.build_resgraph(rg))
    ntrans = 0
    # uniform exclusion distances: the pipeline does not write to the force field, so one parsed copy is shared by
    # the transformed runs (a write would surface as a difference); the base always uses a private copy
    shared = gp_run.parsed_ff(variant, spec)

    def cmp(kind, detail, graph):
        nonlocal ntrans
        ntrans += 1
        got = run_graph(shared, graph)
        if got != base:
            what = "exception" if got and got[0] == "EXC" else \
                ["atoms", "interactions", "edges", "nrexcl"][[i for i in range(4) if got[i] != base[i]][0]]
            viols.append(dict(assertion=f"independent-of-{kind}", tags=["links:" + "+".join(variant["links"])],
                              message=f"{what} differ under {kind} {detail} | links={variant['links']} rg={json.dumps(rg)}",
                              case={"kind": "graph1", "variant": variant, "rg": rg, "transform": [kind, detail]}, detail={}))
    # node keys
    for perm in itertools.permutations(range(n)):
        if list(perm) != list(range(n)):
            cmp("node-keys", list(perm), H.build_resgraph(rg, key_perm=list(perm)))
    cmp("node-keys", "shifted", H.build_resgraph(rg, key_perm=[10 + 3 * i for i in range(n)]))
    # insertion order
    for order in itertools.permutations(range(n)):
        if list(order) != list(range(n)):
            cmp("insertion-order", list(order), H.build_resgraph(rg, insertion=list(order)))
    # edge orientation
    m = len(rg["edges"])
    for r in range(1, m + 1):
        for flip in itertools.combinations(range(m), r):
            cmp("edge-orientation", list(flip), H.build_resgraph(rg, flip=set(flip)))
    # edge insertion order
    for order in edge_orders(m, tier):
        if list(order) == list(range(m)):
            continue
        rg2 = dict(rg)
        rg2["edges"] = [rg["edges"][i] for i in order]
        cmp("edge-order", list(order), H.build_resgraph(rg2))
    return viols, ntrans


def check_fromitp_transforms(case):
    """residue graphs with one or two multi-residue from_itp fragments (copies of the two-residue block M) among ordinary
    residues: the canonical output is the same under every node insertion order and every node-key relabelling"""
    from .c01_extra import M_ITP
    viols, evals, keys = [], 0, []
    ff_text = M_ITP + F.render_block_itp("A", F.BLOCKS["A"]) + F.render_block_itp("B", F.BLOCKS["B"])
    # a link that bonds consecutive copies of M (last residue of one copy to the first of the next)
    copy_link = '[ link ]\n[ atoms ]\ny1 {"resname": "MB"}\n+x1 {"resname": "MA"}\n[ bonds ]\ny1 +x1 1 0.42 420\n'
    specs = [(seq, None) for seq in (["M"], ["M", "A"], ["A", "M"], ["M", "M"], ["M", "A", "M"], ["A", "M", "M"], ["M", "B", "M", "A"])]
    # residue graphs with cycles: the fragment can be reached around the ring as well as through its own edge
    specs += [(["M", "A"], [[0, 1], [1, 2], [0, 2]]), (["A", "M"], [[0, 1], [1, 2], [0, 2]]), (["M", "M"], [[0, 1], [1, 2], [2, 3], [0, 3]]),
              (["A", "M", "B"], [[0, 1], [1, 2], [2, 3], [0, 3]]), (["M", "A", "B"], [[0, 1], [1, 2], [0, 2], [2, 3]])]
    for seq, edges in specs:
        residues = []
        for tok in seq:
            residues += [("MA", True), ("MB", True)] if tok == "M" else [(tok, False)]
        n = len(residues)
        rg = dict(n=n, edges=edges or [[i, i + 1] for i in range(n - 1)], resids=[1 + i for i in range(n)], resnames=[r[0] for r in residues],
                  node_attrs={str(i): {"from_itp": "M"} for i, r in enumerate(residues) if r[1]})
        ne = len(rg["edges"])
        texts = [("itp", ff_text), ("ff", copy_link)]
        base = run_graph(H.parse_ff(texts), H.build_resgraph(rg))
        if base and base[0] == "EXC":
            viols.append(dict(assertion="independent-of-insertion-order", tags=["from_itp"], message=f"sequence {seq} edges {rg['edges']}: base input raises {base[1]}",
                              case=dict(kind="fromitp1", seq=seq, edges=edges, transform=["base", []]), detail={}))
            continue
        perms = list(itertools.permutations(range(n))) if n <= 5 else \
            [tuple(range(n))[::-1]] + [tuple(range(n))[r:] + tuple(range(n))[:r] for r in range(1, n)] + \
            [tuple(range(0, n, 2)) + tuple(range(1, n, 2)), tuple(range(1, n, 2)) + tuple(range(0, n, 2))]
        todo = [("insertion-order", list(p)) for p in perms if list(p) != list(range(n))] + [("node-keys", list(p)) for p in perms if list(p) != list(range(n))]
        if edges:
            todo += [("edge-order", list(p)) for p in itertools.permutations(range(ne)) if list(p) != list(range(ne))]
            todo += [("edge-orientation", [i for i in range(ne) if bits >> i & 1]) for bits in range(1, 2 ** ne)]
        for kind, detail in todo:
            evals += 1
            got = run_graph(H.parse_ff(texts), apply_transform(rg, (kind, detail)))
            if got != base and len(viols) < 20:
                what = f"exception {got[1]}" if got and got[0] == "EXC" else "output differs"
                viols.append(dict(assertion=f"independent-of-{kind}", tags=["from_itp"] + (["cyclic"] if edges else []),
                                  message=f"sequence {seq} with from_itp fragments{' (edges %s)' % edges if edges else ''}: {what} under {kind} {detail}",
                                  case=dict(kind="fromitp1", seq=seq, edges=edges, transform=[kind, detail]), detail={}))
            keys.append(json.dumps([seq, edges, kind, detail]))
    return viols, evals, keys


def check_itp_block_order(case):
    """one polyply .itp file holding several molecule types, one of them with dangling interactions (which become links): the
    order of the molecule types in the file does not matter"""
    viols, evals, keys = [], 0, []
    dangs = {"bond": {"bonds": [((1, 3), ("1", "0.40", "500"), {})]},
             "bond+angle": {"bonds": [((1, 3), ("1", "0.40", "500"), {})], "angles": [((1, 3, 5), ("2", "130", "40"), {})]},
             "sidebond": {"bonds": [((2, 3), ("1", "0.36", "360"), {})]}}
    for dname, dang in dangs.items():
        texts = {"A": F.render_block_itp("A", F.BLOCKS["A"], dangling=dang), "B": F.render_block_itp("B", F.BLOCKS["B"]),
                 "C": F.render_block_itp("C", F.BLOCKS["C"])}
        for n in (2, 3):
            for rn in itertools.product("AC", repeat=n):
                rg = dict(n=n, edges=[[i, i + 1] for i in range(n - 1)], resids=[1 + i for i in range(n)], resnames=list(rn))
                base = run_graph(H.parse_ff([("itp", texts["A"] + texts["B"] + texts["C"])]), H.build_resgraph(rg))
                for perm in itertools.permutations("ABC"):
                    if perm == ("A", "B", "C"):
                        continue
                    evals += 1
                    try:
                        got = run_graph(H.parse_ff([("itp", "".join(texts[k] for k in perm))]), H.build_resgraph(rg))
                    except Exception as exc:  # noqa  (reading the file itself fails)
                        got = ("EXC", type(exc).__name__)
                    if got != base and len(viols) < 20:
                        what = f"exception {got[1]}" if got and got[0] == "EXC" else "atoms or interactions differ"
                        viols.append(dict(assertion="independent-of-definition-order", tags=["itp-block-order"],
                                          message=f"molecule types {list(perm)} in one .itp (A with dangling {dname}) on residues {list(rn)}: {what} compared with the order A, B, C",
                                          case=dict(kind="itporder1", dangling=dname, rn=list(rn), perm=list(perm)), detail={}))
                    keys.append(json.dumps([dname, rn, perm]))
    return viols, evals, keys


def apply_transform(rg, transform):
    kind, detail = transform
    if kind == "node-keys":
        return H.build_resgraph(rg, key_perm=[10 + 3 * i for i in range(rg["n"])] if detail == "shifted" else detail)
    if kind == "insertion-order":
        return H.build_resgraph(rg, insertion=detail)
    if kind == "edge-orientation":
        return H.build_resgraph(rg, flip=set(detail))
    rg2 = dict(rg)
    rg2["edges"] = [rg["edges"][i] for i in detail]
    return H.build_resgraph(rg2)


# ---------------------------------------------------------------- definition order / file split
def conflicts(l1, l2):
    """two links define the same interaction if they share (section, link atom keys, version)"""
    k1 = {(s, a, m.get("version", 1)) for s, lst in F.get_link(l1).get("inter", {}).items() for a, p, m in lst}
    k2 = {(s, a, m.get("version", 1)) for s, lst in F.get_link(l2).get("inter", {}).items() for a, p, m in lst}
    return bool(k1 & k2)


def deforder_graphs(variant, tier):
    for n in (2, 3):
        yield from gp_cases.graphs_for(variant, n, tier, starts=(1,))
    # a few 4-residue inputs
    for i, rg in enumerate(gp_cases.graphs_for(variant, 4, tier, starts=(1,))):
        if i % 7 == 0:
            yield rg


def check_deforder(variant, case, stats):
    viols = []
    links = variant["links"]
    spec = gp_cases.make_spec(variant)
    block_names = list(spec["blocks"])
    orders = []
    for bperm in itertools.permutations(block_names):
        orders.append(("blocks", list(bperm), links))
    if not case.get("blocks_only"):
        for lperm in itertools.permutations(links):
            if list(lperm) == links:
                continue
            # only orders that keep the relative order of conflicting links
            ok = all(not conflicts(a, b) or (links.index(a) < links.index(b)) == (lperm.index(a) < lperm.index(b))
                     for a, b in itertools.combinations(links, 2))
            if ok:
                orders.append(("links", block_names, list(lperm)))
    splits = ["blocks|links", "links|blocks", "half"]
    graphs = list(deforder_graphs(variant, case["tier"]))
    base_ff_text = F.render_ff(spec)
    evals = 0
    keys = []
    for rg in graphs:
        try:
            R.build(spec, rg)
        except R.Rejected:
            continue
        except R.Unspecified:
            if "dup2" not in links:       # (the reference does not define duplicate untagged terms; the comparison needs no reference)
                continue
        base = run_graph(H.parse_ff([("ff", base_ff_text)]), H.build_resgraph(rg))
        variants_texts = []
        for kind, bnames, lnames in orders:
            sp = dict(blocks={k: spec["blocks"][k] for k in bnames}, links=[F.get_link(i) for i in lnames], mods={})
            variants_texts.append((f"{kind}:{bnames if kind == 'blocks' else lnames}", [("ff", F.render_ff(sp))]))
        btxt = "\n".join(F.render_block_ff(k, b) for k, b in spec["blocks"].items())
        ltxt = "\n".join(F.render_link_ff(l) for l in spec["links"])
        variants_texts.append(("files:blocks|links", [("ff", btxt), ("ff", ltxt)]))
        variants_texts.append(("files:links|blocks", [("ff", ltxt), ("ff", btxt)]))
        # an unrelated polyply .itp file (block E, not used by the residue graph) read before / after the .ff definitions
        extra_itp = F.render_block_itp("E", F.BLOCKS["E"])
        variants_texts.append(("files:ff|itp", [("ff", base_ff_text), ("itp", extra_itp)]))
        variants_texts.append(("files:itp|ff", [("itp", extra_itp), ("ff", base_ff_text)]))
        for name, texts in variants_texts:
            evals += 1
            got = run_graph(H.parse_ff(texts), H.build_resgraph(rg))
            if got != base:
                tags = ["links:" + "+".join(links)]
                if "itp" in name:
                    tags.append("mixed-ff-itp-files")
                if "nonedge" in links:
                    tags.append("non-edge-veto-depends-on-earlier-links")
                what = "exception" if got and got[0] == "EXC" else \
                    ["atoms", "interactions", "edges", "nrexcl"][[i for i in range(4) if got[i] != base[i]][0]]
                if len(viols) < 20:
                    viols.append(dict(assertion="independent-of-definition-order", tags=tags,
                                      message=f"{what} differ under {name} | links={links} rg={json.dumps(rg)}",
                                      case=dict(case, only_rg=rg), detail={}))
        keys.append(json.dumps([links, rg], sort_keys=True))
    return viols, evals, keys


# ---------------------------------------------------------------- histories
DNA_BLOCKS = {nm: dict(nrexcl=1, atoms=[("BB", "D" + nm[1:], 0.0, 72.0, 1)], inter={})
              for nm in ["DA", "DT", "DG", "DC", "DA5", "DT5", "DG5", "DC5", "DA3", "DT3", "DG3", "DC3"]}


def hist_specs():
    mixed = dict(blocks={"A": F.block_with_nrexcl("A", 1), "D": F.block_with_nrexcl("D", 3), "B": F.BLOCKS["B"], "C": F.BLOCKS["C"]},
                 links=[F.LINKS["bb"]], mods={})
    plain = gp_cases.make_spec({"links": ["bb", "ang3"]})
    rm = gp_cases.make_spec({"links": ["rm", "bb"]})
    dna = dict(blocks=DNA_BLOCKS, links=[dict(resname=list(DNA_BLOCKS), inter={"bonds": [F.I(["BB", "+BB"], ["1", "0.3", "50"])]})], mods={})
    # an edited version of 'plain' (other bond, no angle, one more link) that is written to the same file name
    plain_edited = gp_cases.make_spec({"links": ["bbA", "gt"]})
    return dict(mixed=mixed, plain=plain, rm=rm, dna=dna, plain_edited=plain_edited)


HIST_INPUTS = [
    dict(id="mixed-ADA", spec="mixed", seq=["A:1", "D:1", "A:1"]),
    dict(id="uniform-AAA-same-files", spec="mixed", seq=["A:3"]),
    dict(id="fail-unknown-block", spec="plain", seq=["A:1", "ZZ:1"]),
    dict(id="dsdna", spec="dna", seq=["DA5:1", "DG:1", "DT3:1"], dsdna=True),
    dict(id="removal", spec="rm", seq=["B:1", "A:2"]),
    dict(id="plain-ACB", spec="plain", seq=["A:1", "C:1", "B:1"]),
    # the definitions file of 'plain' edited in place: same path as an earlier call, other content
    dict(id="plain-AAB-file-edited-in-place", spec="plain_edited", fname="ff_plain.ff", seq=["A:2", "B:1"]),
    # calls that only name a library of the package (inpath left at the API default)
    dict(id="lib-martini3-PEO", lib=["martini3"], seq=["PEO:3"]),
    dict(id="lib-martini2-PDADMA", lib=["martini2"], seq=["PDADMA:3"]),
    dict(id="lib-martini3-unknown-block", lib=["martini3"], seq=["PDADMA:3"]),
]


def run_hist_input(workdir, idx, tag):
    inp = HIST_INPUTS[idx]
    if "lib" in inp:
        r = H.run_gen_params(workdir, [], seq=inp["seq"], outname=f"out_{tag}.itp", lib=inp["lib"], default_inpath=True)
    else:
        spec = hist_specs()[inp["spec"]]
        r = H.run_gen_params(workdir, [(inp.get("fname") or f"ff_{inp['spec']}.ff", F.render_ff(spec))], seq=inp["seq"], dsdna=inp.get("dsdna", False),
                             outname=f"out_{tag}.itp")
    if r["exc"] is not None:
        return ("EXC", type(r["exc"]).__name__)
    if not r["itp_path"].exists():
        return ("NOFILE",)
    lines = r["itp_path"].read_text().splitlines()
    return ("FILE", "\n".join(lines[1:]))


def fresh_outputs():
    """each input run once in a brand-new interpreter"""
    code = ("import sys, json; sys.path.insert(0, %r)\n"
            "from pmc.props import c13\nfrom pmc import gp_harness as H\n"
            "i = int(sys.argv[1])\n"
            "with H.tempdir() as d:\n"
            "    print('RESULT' + json.dumps(c13.run_hist_input(d, i, 'fresh')))\n") % (os.path.dirname(os.path.dirname(os.path.dirname(os.path.abspath(__file__)))),)
    out = {}
    for i in range(len(HIST_INPUTS)):
        p = subprocess.run([sys.executable, "-c", code, str(i)], capture_output=True, text=True,
                           env=dict(os.environ, PYTHONHASHSEED="0", TQDM_DISABLE="1"))
        line = [l for l in p.stdout.splitlines() if l.startswith("RESULT")]
        if not line:
            raise RuntimeError("fresh run failed: " + p.stderr[-500:])
        out[i] = tuple(json.loads(line[0][6:]))
    return out


def check_histories(case):
    viols, evals, keys = [], 0, []
    fresh = fresh_outputs()
    n = len(HIST_INPUTS)
    seqs = []
    for d in range(1, case["depth"] + 1):
        for rest in itertools.product(range(n), repeat=d - 1):
            seqs.append([case["first"]] + list(rest))
    if case.get("only_seq"):
        seqs = [case["only_seq"]]
    for seq in seqs:
        with H.tempdir() as d:
            for step, idx in enumerate(seq):
                got = run_hist_input(d, idx, f"s{step}")
                evals += 1
                if tuple(got) != fresh[idx]:
                    viols.append(dict(assertion="independent-of-run-history", tags=[f"input:{HIST_INPUTS[idx]['id']}"],
                                      message=f"call {step} ({HIST_INPUTS[idx]['id']}) after history {[HIST_INPUTS[i]['id'] for i in seq[:step]]} "
                                              f"differs from a fresh process: {str(got)[:200]} vs {str(fresh[idx])[:200]}",
                                      case=dict(case, only_seq=seq), detail={}))
                    break
            # files written by earlier calls of the sequence must be untouched and no stray file may appear
            names = sorted(p.name for p in d.iterdir() if p.name.startswith("out_") or p.name.startswith("#"))
            expect = sorted(f"out_s{st}.itp" for st, idx in enumerate(seq) if fresh[idx][0] == "FILE")
            if names != expect and not viols:
                viols.append(dict(assertion="independent-of-run-history", tags=["stray-files"],
                                  message=f"files {names} expected {expect} after {[HIST_INPUTS[i]['id'] for i in seq]}",
                                  case=dict(case, only_seq=seq), detail={}))
        if len(seq) > 1:
            keys.append("hist:" + ",".join(map(str, seq)))
        if viols:
            break       # one counterexample per starting input is enough; a leaking process only gets slower
    # repeated runs give identical files
    return viols, evals, keys


def run_case(case):
    stats = {}
    if case["kind"] in ("itporder", "itporder1"):
        v, evals, keys = check_itp_block_order(case)
        if case["kind"] == "itporder1":
            v = [x for x in v if all(x["case"][k] == case[k] for k in ("dangling", "rn", "perm"))]
            return dict(evals=1, keys=[], violations=v, stats={})
        return dict(evals=evals, keys=keys, violations=v, stats={"itp_block_orders": evals}, sample=dict(kind="itporder", runs=evals))
    if case["kind"] in ("fromitp", "fromitp1"):
        v, evals, keys = check_fromitp_transforms(case)
        if case["kind"] == "fromitp1":
            v = [x for x in v if x["case"]["seq"] == case["seq"] and x["case"].get("edges") == case.get("edges") and x["case"]["transform"] == case["transform"]]
            return dict(evals=1, keys=[], violations=v, stats={})
        return dict(evals=evals, keys=keys, violations=v, stats={"fromitp_transforms": evals}, sample=dict(kind="fromitp", transforms=evals))
    if case["kind"] == "graph1":
        variant, rg = case["variant"], case["rg"]
        spec = gp_cases.make_spec(variant)
        base = run_graph(gp_run.parsed_ff(variant, spec), H.build_resgraph(rg))
        got = run_graph(gp_run.parsed_ff(variant, spec), apply_transform(rg, case["transform"]))
        v = []
        if got != base:
            v.append(dict(assertion=f"independent-of-{case['transform'][0]}", tags=[], message="replay: outputs differ", case=case, detail={}))
        return dict(evals=1, keys=[], violations=v, stats={})
    if case["kind"] == "graph":
        variant = case["variant"]
        spec = gp_cases.make_spec(variant)
        evals, keys, viols = 0, [], []
        for rg in gp_cases.graphs_for(variant, case["n"], case["tier"], starts=(1,)):
            if case["n"] == 4 and case["tier"] == "quick":
                # 4 residues: all-equal names and names alternating with the residue id
                byid = [rg["resnames"][i] for i in sorted(range(4), key=lambda i: rg["resids"][i])]
                if byid not in (["A"] * 4, ["A", "C", "A", "C"], ["A", "B", "A", "B"]):
                    continue
            try:
                R.build(spec, rg)
            except (R.Unspecified, R.Rejected):
                continue
            v, nt = check_graph_transforms(variant, spec, rg, stats, case["tier"])
            evals += nt
            if len(viols) < 20:
                viols += v
            keys.append(json.dumps([variant["links"], rg], sort_keys=True))
        stats["graph_transforms"] = evals
        return dict(evals=evals, keys=keys, violations=viols, stats=stats,
                    sample={"kind": "graph", "links": variant["links"], "n": case["n"], "transformed_runs": evals})
    if case["kind"] == "deforder":
        if case.get("only_rg"):
            pass
        v, evals, keys = check_deforder(case["variant"], case, stats)
        stats["definition_order_runs"] = evals
        return dict(evals=evals, keys=keys, violations=v, stats=stats,
                    sample={"kind": "deforder", "links": case["variant"]["links"], "runs": evals})
    v, evals, keys = check_histories(case)
    stats["history_calls"] = evals
    return dict(evals=evals, keys=keys, violations=v, stats=stats,
                sample={"kind": "history", "first": HIST_INPUTS[case["first"]]["id"], "depth": case["depth"], "calls": evals})
