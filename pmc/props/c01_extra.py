"""C01 case families beyond the .ff / single-residue-block core: terminal modifications (-mods), polyply .itp
syntax, multi-residue (from_itp) blocks."""
import copy, itertools, json
from .. import ffmodel as F, gp_harness as H, ref_genparams as R
from ..runner import crash_violation

# ------------------------------------------------------------------ modifications
# "A" is not an amino acid, but its name is part of one (ALA): terminal modifications do not apply to it
MOD_BLOCKS = {"ALA": F.BLOCKS["ALA"], "GLY": F.BLOCKS["GLY"], "B": F.BLOCKS["B"], "A": F.BLOCKS["A"]}
MODS = {
    "N-ter": dict(atoms=[("BB", {"replace": {"atype": "Qd", "charge": 1.0}}), ("SC1", {"replace": {"mass": 40.0}})], inter={}),
    "C-ter": dict(atoms=[("BB", {"replace": {"atype": "Qa", "charge": -1.0}})], inter={}),
    "cap": dict(atoms=[("BB", {"replace": {"mass": 80.0}}), ("SC1", {"replace": {"charge": 0.3}})],
                inter={"bonds": [F.I(["BB", "SC1"], ["1", "0.29", "999"], {"comment": "cap"})]}),
}
MOD_LINK = dict(resname=["ALA", "GLY", "B", "A"], inter={"bonds": [F.I(["BB", "+BB"], ["1", "0.35", "1250"])]})
# the same backbone link, but it also renames the side atom of the residue that makes the bond: afterwards a modification that
# names SC1 names nothing in that residue any more (names are those the molecule has when the modification is applied)
MOD_LINK_RENAME = dict(resname=["ALA", "GLY", "B", "A"], atoms={"SC1": {"replace": {"atomname": "SCX"}}},
                       inter={"bonds": [F.I(["BB", "+BB"], ["1", "0.35", "1250"])]})
PROTEIN = {"ALA", "GLY"}


def mod_spec(with_mods=True, rename=False, only_cap=False):
    mods = MODS if with_mods else {}
    if only_cap:
        mods = {"cap": MODS["cap"]}      # a force field that defines a modification, but not the default termini
    return dict(blocks=MOD_BLOCKS, links=[MOD_LINK_RENAME if rename else MOD_LINK], mods=mods)


def mod_cases(tier):
    for n in (1, 2, 3, 4):
        for names in itertools.product(("ALA", "GLY"), repeat=n):
            yield dict(kind="mods", names=list(names), tier=tier)
    yield dict(kind="mods", names=["ALA", "B", "ALA"], tier=tier)
    yield dict(kind="mods", names=["B", "ALA", "GLY"], tier=tier)
    for names in (["A", "ALA", "A"], ["ALA", "A"], ["A", "A"], ["A"]):
        yield dict(kind="mods", names=names, tier=tier)
    # polymers without amino acids at the ends, force field without N-ter / C-ter
    for names in (["B", "B"], ["A", "B", "A"], ["B", "ALA", "B"]):
        yield dict(kind="mods", names=names, tier=tier, only_cap=True)
    for names in (["ALA", "ALA"], ["ALA", "ALA", "ALA"], ["ALA", "GLY", "ALA"], ["GLY", "ALA", "ALA"]):
        yield dict(kind="mods", names=names, tier=tier, rename=True)


def mod_selections(names, start, rename=False):
    """[] (default termini) + every single and ordered pair of (residue, modification) whose named interaction atoms exist"""
    singles = []
    for i, rn in enumerate(names):
        for mname, mod in MODS.items():
            need = {a for lst in mod["inter"].values() for at, _, _ in lst for a in at}
            have = {a[0] for a in MOD_BLOCKS[rn]["atoms"]}
            if rename and rn == "ALA" and i < len(names) - 1:
                have = (have - {"SC1"}) | {"SCX"}      # the link renamed the side atom of every ALA that has a next residue
            if need <= have:
                singles.append((i, rn, mname))
    out = [[]]
    out += [[s] for s in singles]
    out += [[a, b] for a, b in itertools.permutations(singles, 2)]
    # the specification names another residue name than the residue with that id has: no residue is selected
    for (i, rn, mname) in singles:
        wrong = "GLY" if rn == "ALA" else "ALA"
        out.append([(i, rn, mname, wrong)])
    return out


def ref_mods(spec, rg, sel):
    """expected molecule after ApplyModifications; sel = [(node index, resname, modname)] or [] for the default termini"""
    exp = R.build(dict(spec, mods={}), rg)
    atoms = [dict(a) for a in exp["atoms"]]
    inter = dict(exp["inter"])
    order = sorted(range(rg["n"]), key=lambda i: rg["resids"][i])
    targets = [(x[0], x[2]) for x in sel if len(x) == 3] if sel else [(order[0], "N-ter"), (order[-1], "C-ter")]
    named = set()
    extra = []
    for node, mname in targets:
        if rg["resnames"][node] not in PROTEIN:
            continue
        mod = MODS[mname]
        byname = {atoms[p]["atomname"]: p for p in exp["res_atoms"][node]}
        for an, attrs in mod["atoms"]:
            if an in byname:
                named.add(byname[an])
                atoms[byname[an]].update(attrs.get("replace", {}))
        for sec, lst in mod["inter"].items():
            for at, params, meta in lst:
                extra.append((sec, tuple(byname[a] for a in at), tuple(params)))
    return exp, atoms, inter, extra, named


def check_mods(case, stats):
    from polyply.src.apply_modifications import ApplyModifications
    viols, evals, keys = [], 0, []
    names = case["names"]
    n = len(names)
    spec = mod_spec(rename=bool(case.get("rename")), only_cap=bool(case.get("only_cap")))
    ff_text = F.render_ff(spec)
    for start in (1, 5):
        for keymode in ("resid-1", "shifted", "reversed"):
            rg = dict(n=n, edges=[[i, i + 1] for i in range(n - 1)], resids=[start + i for i in range(n)], resnames=names)
            for sel in mod_selections(names, start, rename=bool(case.get("rename"))):
                if case.get("only_cap") and any(x[2] != "cap" for x in sel):
                    continue
                if case["tier"] == "quick" and len(sel) == 2 and (start == 5) != (keymode == "shifted"):
                    continue
                if keymode == "reversed" and (len(sel) > 1 or start == 5):
                    continue
                evals += 1
                case1 = dict(kind="mods1", names=names, start=start, keymode=keymode, sel=[list(s) for s in sel], rename=bool(case.get("rename")), only_cap=bool(case.get("only_cap")))
                mods_arg = [[f"{x[3] if len(x) == 4 else x[1]}{rg['resids'][x[0]]}", x[2]] for x in sel]
                key_perm = [start - 1 + i for i in range(n)] if keymode == "resid-1" else [10 + 2 * i for i in range(n)] if keymode == "shifted" else \
                    [20 - i for i in range(n)]         # node keys running against the residue ids
                try:
                    ff = H.parse_ff([("ff", ff_text)])
                    mm0, _ = H.run_processors(ff, H.build_resgraph(rg, key_perm=key_perm), mods=None)
                    before = H.mol_digest(mm0.molecule)
                    ApplyModifications(modifications=mods_arg, meta_molecule=mm0).run_molecule(mm0)
                    after = H.mol_digest(mm0.molecule)
                except Exception as exc:  # noqa
                    viols.append(crash_violation(exc, case1, assertion="modifications-accepted"))
                    continue
                exp, atoms, inter, extra, named = ref_mods(spec, rg, sel)
                info = f" | residues {names} start {start} keys {keymode} mods {mods_arg or 'default termini'}" + (" (link renames SC1)" if case.get("rename") else "")
                for i, (a, b, e) in enumerate(zip(before["atoms"], after["atoms"], atoms)):
                    for k in ("atomname", "atype", "resname", "resid", "charge_group", "charge", "mass"):
                        if b[k] != e[k]:
                            tag = "atom-not-named-by-the-modification" if i not in named else "named-atom"
                            if len(viols) < 20:
                                viols.append(dict(assertion="modification-changes-only-named-atoms-of-target" if i not in named else "modification-applied-to-named-atoms",
                                                  tags=[tag], message=f"atom {i} ({e['resname']}{e['resid']}:{e['atomname']}) {k}={b[k]!r} expected {e[k]!r} (before modification {a[k]!r})" + info,
                                                  case=case1, detail={}))
                # interactions: everything from before is still there, plus exactly the modification's interactions
                kpos = {x["key"]: i for i, x in enumerate(after["atoms"])}
                got = sorted((sec, tuple(kpos[a] for a in at), tuple(p)) for sec, lst in after["inter"].items() for at, p, m in lst)
                was = sorted((sec, tuple(kpos[a] for a in at), tuple(p)) for sec, lst in before["inter"].items() for at, p, m in lst)
                if got != sorted(was + extra) and len(viols) < 20:
                    viols.append(dict(assertion="modification-adds-only-its-interactions", tags=[],
                                      message=f"interactions after {[g for g in got if g not in was]} expected additions {extra}" + info, case=case1, detail={}))
                if sel or n >= 1:
                    keys.append(json.dumps([names, start, keymode, sel, bool(case.get("rename"))]))
    return viols, evals, keys


# ------------------------------------------------------------------ .itp syntax differential
def itp_cases(tier):
    for n in (1, 2, 3):
        yield dict(kind="itp", n=n, tier=tier)


def canon_inter(dg):
    pos = {a["key"]: i for i, a in enumerate(dg["atoms"])}
    return sorted((sec, tuple(pos[x] for x in at), tuple(p), tuple(sorted((k, v) for k, v in m.items() if k in ("ifdef", "ifndef"))))
                  for sec, lst in dg["inter"].items() for at, p, m in lst)


# block with several terms on the same atoms: four dihedral terms and three angle terms (in .ff syntax they need explicit
# version tags, a polyply .itp cannot carry any)
Q_BLOCK = dict(nrexcl=1,
               atoms=[("BB", "Q1", 0.0, 20.0, 1), ("Q2", "Q2", 0.1, 21.0, 2), ("Q3", "Q3", -0.1, 22.0, 3), ("Q4", "Q4", 0.0, 23.0, 4)],
               inter={"bonds": [F.I(["BB", "Q2"], ["1", "0.11", "4001"]), F.I(["Q2", "Q3"], ["1", "0.12", "4002"]), F.I(["Q3", "Q4"], ["1", "0.13", "4003"])],
                      "angles": [F.I(["BB", "Q2", "Q3"], ["10", str(100 + 10 * k), str(20 + k)], {"version": k + 1}) for k in range(3)],
                      "dihedrals": [F.I(["BB", "Q2", "Q3", "Q4"], ["9", str(60 * k), f"{k + 1}.5", str(k + 1)], {"version": k + 1}) for k in range(4)]})


def check_itp(case, stats):
    from ..enum_graphs import labelled_graphs
    viols, evals, keys = [], 0, []
    blocks = {k: F.BLOCKS[k] for k in "ABCD"}
    blocks["Q"] = Q_BLOCK
    ff_text = "\n".join(F.render_block_ff(k, b) for k, b in blocks.items())
    itp_text = "\n".join(F.render_block_itp(k, b) for k, b in blocks.items())
    n = case["n"]
    for es, rank in labelled_graphs(n):
        for rn in itertools.product("ABCDQ" if n <= 2 else "AQD", repeat=n):
            for start in (1, 5):
                rg = dict(n=n, edges=[list(e) for e in es], resids=[start + r for r in rank], resnames=list(rn))
                evals += 1
                case1 = dict(kind="itp1", rg=rg)
                out = {}
                try:
                    for syn, text in (("ff", ff_text), ("itp", itp_text)):
                        mm, _ = H.run_processors(H.parse_ff([(syn, text)]), H.build_resgraph(rg))
                        out[syn] = H.mol_digest(mm.molecule)
                except Exception as exc:  # noqa
                    viols.append(crash_violation(exc, case1, assertion="pipeline-accepts-valid-input"))
                    continue
                atoms = {s: [tuple(a[k] for k in ("atomname", "atype", "resname", "resid", "charge_group", "charge", "mass")) for a in d["atoms"]] for s, d in out.items()}
                exp = R.build(dict(blocks=blocks, links=[], mods={}), rg)
                want_atoms = [tuple(a[k] for k in ("atomname", "atype", "resname", "resid", "charge_group", "charge", "mass")) for a in exp["atoms"]]
                want_inter = sorted((sec, at, params, tuple(sorted((k, v) for k, v in meta.items() if k in ("ifdef", "ifndef"))))
                                    for (sec, at, ver), (params, meta, _) in exp["inter"].items())
                for syn in ("ff", "itp"):
                    if atoms[syn] != want_atoms and len(viols) < 20:
                        viols.append(dict(assertion="atoms-verbatim-in-both-syntaxes", tags=[f"syntax:{syn}"], message=f"{syn}: atoms {atoms[syn]} expected {want_atoms} | rg={json.dumps(rg)}", case=case1, detail={}))
                    got = canon_inter(out[syn])
                    if got != want_inter and len(viols) < 20:
                        lost = [x for x in want_inter if x not in got][:3]
                        extra = [x for x in got if x not in want_inter][:3]
                        viols.append(dict(assertion="block-interaction-once-per-instance", tags=[f"syntax:{syn}"],
                                          message=f"{syn}: missing {lost} unexpected {extra} | rg={json.dumps(rg)}", case=case1, detail={}))
                if n >= 2:
                    keys.append(json.dumps(rg, sort_keys=True))
    return viols, evals, keys


# ------------------------------------------------------------------ multi-residue blocks (from_itp)
M_ITP = """[ moleculetype ]
M 1
[ atoms ]
1 X1 1 MA x1 1 0.1 10.0
2 X2 1 MA x2 2 0.2 11.0
3 Y1 2 MB y1 3 -0.3 12.0
[ bonds ]
1 2 1 0.21 2100
2 3 1 0.22 2200
[ angles ]
1 2 3 2 111 11
"""
M_DEF = dict(res=[("MA", [("x1", "X1", 0.1, 10.0, 1), ("x2", "X2", 0.2, 11.0, 2)]), ("MB", [("y1", "Y1", -0.3, 12.0, 3)])],
             inter=[("bonds", (0, 1), ("1", "0.21", "2100")), ("bonds", (1, 2), ("1", "0.22", "2200")), ("angles", (0, 1, 2), ("2", "111", "11"))])


def multi_cases(tier):
    # sequences over tokens: A, B (regular residues) and M (one copy of the two-residue block)
    for k in (1, 2, 3, 4):
        for seq in itertools.product("ABM", repeat=k):
            if "M" in seq:
                yield dict(kind="multi", seq=list(seq), tier=tier)


def check_multi(case, stats):
    viols, evals, keys = [], 0, []
    seq = case["seq"]
    ff_text = M_ITP + F.render_block_itp("A", F.BLOCKS["A"]) + F.render_block_itp("B", F.BLOCKS["B"])
    # residue list
    residues = []        # (resname, from_itp, copy id)
    for ci, tok in enumerate(seq):
        if tok == "M":
            residues += [("MA", True, ci), ("MB", True, ci)]
        else:
            residues.append((tok, False, ci))
    n = len(residues)
    perms = [list(range(n)), list(range(n))[::-1], [(3 * i + 1) % n for i in range(n)] if n % 3 else list(range(n))[::2] + list(range(n))[1::2]]
    # (start id, first resid used inside the multi-residue itp): an itp cut out of a larger molecule numbers its residues
    # from 3; that is only meaningful when the fragment opens the molecule and the residue graph uses the same numbers
    combos = [(1, 1), (4, 1)] + ([(3, 3)] if seq[0] == "M" and seq.count("M") == 1 else [])
    for start, base in combos:
        ff_text = M_ITP.replace(" 1 MA ", f" {base} MA ").replace(" 2 MB ", f" {base + 1} MB ") + \
            F.render_block_itp("A", F.BLOCKS["A"]) + F.render_block_itp("B", F.BLOCKS["B"])
        for key_perm in perms:
            if sorted(key_perm) != list(range(n)):
                continue
            rg = dict(n=n, edges=[[i, i + 1] for i in range(n - 1)], resids=[start + i for i in range(n)],
                      resnames=[r[0] for r in residues], node_attrs={str(i): {"from_itp": "M"} for i, r in enumerate(residues) if r[1]})
            evals += 1
            case1 = dict(kind="multi1", seq=seq, start=start, base=base, key_perm=key_perm)
            # expected atoms
            want, inter_want, last_cg = [], [], 0
            i = 0
            while i < n:
                rn, fi, ci = residues[i]
                off = len(want)
                if fi:
                    cg_base = last_cg
                    for k, (resname, atoms) in enumerate(M_DEF["res"]):
                        for (an, at, q, m, cg) in atoms:
                            want.append((an, at, resname, start + i + k, cg + cg_base, q, m))
                    for sec, at, params in M_DEF["inter"]:
                        inter_want.append((sec, tuple(off + a for a in at), params))
                    i += 2
                else:
                    blk = F.BLOCKS[rn]
                    for (an, at, q, m, cg) in blk["atoms"]:
                        want.append((an, at, rn, start + i, cg + last_cg, q, m))
                    names = [a[0] for a in blk["atoms"]]
                    for sec, lst in blk["inter"].items():
                        for at, params, meta in lst:
                            inter_want.append((sec, tuple(off + names.index(a) for a in at), tuple(params)))
                    i += 1
                last_cg = want[-1][4]
            try:
                mm, _ = H.run_processors(H.parse_ff([("itp", ff_text)]), H.build_resgraph(rg, key_perm=key_perm))
            except Exception as exc:  # noqa
                viols.append(crash_violation(exc, case1, assertion="multi-residue-blocks-accepted",
                                             tags=["node-keys-not-ascending"] if key_perm != list(range(n)) else []))
                continue
            dg = H.mol_digest(mm.molecule)
            got = [tuple(a[k] for k in ("atomname", "atype", "resname", "resid", "charge_group", "charge", "mass")) for a in dg["atoms"]]
            if got != want and len(viols) < 20:
                diff = [(i, g, w) for i, (g, w) in enumerate(zip(got, want)) if g != w][:3]
                viols.append(dict(assertion="multi-residue-block-verbatim", tags=["node-keys-not-ascending"] if key_perm != list(range(n)) else [],
                                  message=f"sequence {seq} start {start} keys {key_perm}: {len(got)} atoms, first differences {diff}", case=case1, detail={}))
            pos = {a["key"]: i for i, a in enumerate(dg["atoms"])}
            gi = sorted((sec, tuple(pos[x] for x in at), tuple(p)) for sec, lst in dg["inter"].items() for at, p, m in lst)
            if gi != sorted(inter_want) and len(viols) < 20:
                viols.append(dict(assertion="block-interaction-once-per-instance", tags=["multi-residue-block"],
                                  message=f"sequence {seq} start {start} keys {key_perm}: interactions {gi} expected {sorted(inter_want)}", case=case1, detail={}))
            keys.append(json.dumps([seq, start, base, key_perm]))
    return viols, evals, keys


# ------------------------------------------------------------------ residue-graph labels named like atom attributes
def label_cases(tier):
    yield dict(kind="labels", tier=tier)


def check_labels(case, stats):
    """residue-graph nodes may carry free labels; a label that happens to be called like an atom attribute (charge, mass,
    atype, atomname, charge_group) on any one residue must leave the atoms verbatim copies of their blocks"""
    viols, evals, keys = [], 0, []
    spec = dict(blocks={k: F.BLOCKS[k] for k in "ABCD"}, links=[F.LINKS["bb"]], mods={})
    ff_text = F.render_ff(spec)
    labels = [{"charge": 1.0}, {"mass": 1.0}, {"atype": "ZZ"}, {"atomname": "QQ"}, {"charge_group": 99}, {"charge": 1.0, "mass": 2.0}]
    for names in (["A", "A"], ["A", "C", "A"], ["C", "D", "A"], ["A", "A", "A", "A"]):
        n = len(names)
        base_rg = dict(n=n, edges=[[i, i + 1] for i in range(n - 1)], resids=[3 + i for i in range(n)], resnames=names)
        exp = R.build(spec, base_rg)
        want = [tuple(a[k] for k in ("atomname", "atype", "resname", "resid", "charge_group", "charge", "mass")) for a in exp["atoms"]]
        for node in range(n):
            for lab in labels:
                rg = dict(base_rg, node_attrs={str(node): lab})
                evals += 1
                case1 = dict(kind="labels1", names=names, node=node, label=lab)
                try:
                    mm, _ = H.run_processors(H.parse_ff([("ff", ff_text)]), H.build_resgraph(rg))
                except Exception as exc:  # noqa
                    viols.append(crash_violation(exc, case1, assertion="labelled-residue-graph-accepted"))
                    continue
                got = [tuple(a[k] for k in ("atomname", "atype", "resname", "resid", "charge_group", "charge", "mass")) for a in H.mol_digest(mm.molecule)["atoms"]]
                if got != want and len(viols) < 20:
                    diff = [(i, g, w) for i, (g, w) in enumerate(zip(got, want)) if g != w][:3]
                    viols.append(dict(assertion="atom-verbatim-despite-residue-label", tags=["label:" + "+".join(sorted(lab))],
                                      message=f"residues {names}, residue {node} labelled {lab}: atoms differ from the blocks {diff}", case=case1, detail={}))
                keys.append(json.dumps([names, node, lab], sort_keys=True))
    return viols, evals, keys


FUNCS = {"mods": check_mods, "itp": check_itp, "multi": check_multi, "labels": check_labels}


def extra_cases(tier):
    yield from label_cases(tier)
    yield from mod_cases(tier)
    yield from itp_cases(tier)
    batch = []
    for c in multi_cases(tier):
        batch.append(c)
        if len(batch) == 8:
            yield dict(kind="multi-batch", items=batch, tier=tier)
            batch = []
    if batch:
        yield dict(kind="multi-batch", items=batch, tier=tier)


def run_extra(case):
    stats = {}
    if case["kind"] == "multi-batch":
        evals, keys, viols = 0, [], []
        for it in case["items"]:
            v, e, k = check_multi(it, stats)
            evals += e
            keys += k
            viols += v
        return dict(evals=evals, keys=keys, violations=viols[:30], stats={"inputs_multi": evals}, sample=case["items"][0])
    kind = case["kind"]
    if kind.endswith("1"):      # replay of a single sub-case: re-run its family and keep matching violations
        fam = kind[:-1]
        src = dict(kind=fam, tier="thorough", names=case.get("names"), n=(case.get("rg") or {}).get("n"), seq=case.get("seq"),
                   rename=case.get("rename"), only_cap=case.get("only_cap"))
        v, _, _ = FUNCS[fam](src, stats)
        keep = [x for x in v if all(x["case"].get(k) == case[k] for k in case if k != "kind")]
        return dict(evals=1, keys=[], violations=keep, stats={})
    v, evals, keys = FUNCS[kind](case, stats)
    return dict(evals=evals, keys=keys, violations=v[:30], stats={f"inputs_{kind}": evals}, sample={k: v for k, v in case.items()})
