"""C09 - parameters are resolved as GROMACS preprocessing would resolve them (E3)."""
import itertools, json, math
from .. import gp_harness as H
from ..runner import crash_violation

PID = "C09"
LEVEL = "exploration"
RULE = ("bonds / angles / constraints: type entry {exact, reversed, absent} x interaction listed {forward, backward} x instances "
        "{1,2,3}; dihedrals: type tables = every non-empty subset of <=2 (quick; 3 thorough) of the 16 wildcard masks of the "
        "interaction's own types written in either direction, 1-3 terms per entry, x both listing directions x {1,2,3} molecule "
        "instances, plus palindromic and repeated type sequences; #define macros in parameters; OPLS bond_type indirection; "
        "non-bonded: every subset of explicit nonbond_params over 3 atom types x gen-pairs yes/no x comb-rule 1/2/3 x C6/C12 from a "
        "positive grid. Oracle: candidates = entries matching forward or reversed with X as wildcard; the entry used must have the "
        "minimal number of wildcards among the candidates, the same for both listing directions; OSError iff no candidate; all "
        "terms in every instance; pair table symmetric, explicit wins, self terms from atom types, 4 eps sigma^6 = C6 and "
        "4 eps sigma^12 = C12; an interaction takes exactly the entries of its own function type (error if there is none). distinct_nontrivial = inputs with >=1 wildcard entry or >=2 candidates or a macro / multi-term")
ASSUMPTIONS = ["the values produced by the combination rule itself are not judged (the property does not state them)",
               "ties between equally specific wildcard entries may be resolved either way"]
BUDGET = {"quick": 420, "thorough": 2400}

TYPES4 = ["TA", "TB", "TC", "TD"]
MASKS = [m for m in itertools.product([0, 1], repeat=4)]      # 1 = wildcard


def top_text(atomtypes_lines, type_sections, mol_atoms, mol_inter, nmol, defaults="1 2 no 1.0 1.0", defines=(), nonbond=()):
    out = [f"#define {d}" for d in defines]
    out += ["[ defaults ]", defaults, "[ atomtypes ]"] + list(atomtypes_lines)
    if nonbond:
        out += ["[ nonbond_params ]"] + list(nonbond)
    for sec, lines in type_sections.items():
        out += [f"[ {sec} ]"] + list(lines)
    out += ["[ moleculetype ]", "M 1", "[ atoms ]"]
    for i, t in enumerate(mol_atoms, 1):
        out.append(f"{i} {t} 1 RES a{i} {i} 0.0 12.0")
    for sec, lines in mol_inter.items():
        out += [f"[ {sec} ]"] + list(lines)
    out += ["[ system ]", "verif", "[ molecules ]", f"M {nmol}"]
    return "\n".join(out) + "\n"


AT_LINES = [f"{t} 12.0 0.0 A 0.3{i} 0.{i + 1}" for i, t in enumerate(TYPES4)]


def read_pre(text):
    from polyply.src.topology import Topology
    with H.tempdir() as d:
        (d / "s.top").write_text(text)
        top = Topology.from_gmx_topfile(d / "s.top", "verif")
        top.preprocess()
    return top


def inter_of(top, sec):
    """per instance: sorted list of (atoms, params)"""
    out = []
    for mm in top.molecules:
        out.append(sorted((tuple(i.atoms), tuple(str(p) for p in i.parameters)) for i in mm.molecule.interactions.get(sec, [])))
    return out


# ---------------------------------------------------------------- dihedrals
def dih_cases(tier):
    nsub = 2 if tier == "quick" else 3
    seqs = [("TA", "TB", "TC", "TD"), ("TA", "TB", "TB", "TA"), ("TA", "TA", "TB", "TC")]
    # an entry = (mask, direction, nterms); tables = subsets of entries with distinct keys
    entries = [(m, d) for m in MASKS for d in (0, 1)]
    for seq in seqs if tier == "thorough" else seqs[:2]:
        for r in range(1, nsub + 1):
            for combo in itertools.combinations(range(len(entries)), r):
                if r == 3 and sum(sum(entries[c][0]) for c in combo) % 3:
                    continue   # thin the triples deterministically
                yield dict(kind="dih", seq=list(seq), entries=[entries[c] for c in combo])


def entry_key(seq, mask, direction):
    s = seq if direction == 0 else seq[::-1]
    m = mask if direction == 0 else mask[::-1]
    return tuple("X" if w else t for t, w in zip(s, m))


def matches(key, atoms):
    return all(k == "X" or k == a for k, a in zip(key, atoms))


def check_dih(case, stats):
    viols = []
    seq = tuple(case["seq"])
    keys = {}
    for n, (mask, direction) in enumerate(case["entries"]):
        k = entry_key(seq, tuple(mask), direction)
        if k in keys or k[::-1] in keys:
            return viols, False        # same pattern written twice: outside the alphabet
        keys[k] = 1 + (n % 3)          # number of terms
    lines = []
    for k, nterm in keys.items():
        for t in range(nterm):
            lines.append(" ".join(k) + f" 9 {10 * (t + 1) + len(lines)} {1 + t}.5 {t + 1}")
    entry_terms = {}
    for ln in lines:
        tok = ln.split()
        entry_terms.setdefault(tuple(tok[:4]), []).append(tuple(tok[4:]))
    cands = [k for k in keys if matches(k, seq) or matches(k, seq[::-1])]
    best = min((sum(1 for x in k if x == "X") for k in cands), default=None)
    results = {}
    for listing in ("fwd", "bwd"):
        for nmol in (1, 2, 3):
            idx = [1, 2, 3, 4] if listing == "fwd" else [4, 3, 2, 1]
            text = top_text(AT_LINES, {"dihedraltypes": lines}, list(seq), {"bonds": ["1 2 1 0.1 10", "2 3 1 0.1 10", "3 4 1 0.1 10"],
                                                                          "dihedrals": [" ".join(map(str, idx)) + " 9"]}, nmol)
            case1 = dict(case, single=dict(listing=listing, nmol=nmol))
            info = f" | types {seq} listed {listing} x{nmol}; table {sorted(' '.join(k) for k in keys)}"
            tags = []
            wild_only_reverse = True
            try:
                top = read_pre(text)
            except OSError as exc:
                if cands:
                    # classifier for the known finding: does the forward-only CHARMM pattern list of polyply cover a candidate?
                    viols.append(dict(assertion="dihedral-type-found-when-a-pattern-matches", tags=tags,
                                      message=f"OSError although {cands} match" + info, case=case1, detail={}))
                results[(listing, nmol)] = "ERR"
                continue
            except Exception as exc:  # noqa
                viols.append(crash_violation(exc, case1, assertion="preprocess-does-not-crash"))
                continue
            if not cands:
                viols.append(dict(assertion="error-iff-no-matching-type", tags=[], message="no entry matches but no error" + info, case=case1, detail={}))
                continue
            per_inst = inter_of(top, "dihedrals")
            want_atoms = tuple(i - 1 for i in idx)
            first = per_inst[0]
            used = tuple(sorted(p for a, p in first))
            ok_sets = {tuple(sorted(entry_terms[k])): k for k in cands if sum(1 for x in k if x == "X") == best}
            any_sets = {tuple(sorted(entry_terms[k])): k for k in cands}
            if used not in any_sets:
                viols.append(dict(assertion="dihedral-carries-parameters-of-a-matching-type", tags=[],
                                  message=f"terms {used} are not those of a matching entry" + info, case=case1, detail={}))
            elif used not in ok_sets:
                viols.append(dict(assertion="least-wildcarded-pattern-wins", tags=[],
                                  message=f"used entry {any_sets[used]}, most specific candidates {sorted(ok_sets.values())}" + info, case=case1, detail={}))
            for n, inst in enumerate(per_inst):
                if inst != first:
                    viols.append(dict(assertion="all-terms-in-every-instance", tags=[],
                                      message=f"instance {n} has {inst}, instance 0 has {first}" + info, case=case1, detail={}))
                if any(a != want_atoms for a, p in inst):
                    viols.append(dict(assertion="all-terms-in-every-instance", tags=[], message=f"instance {n}: atoms {inst}" + info, case=case1, detail={}))
            results[(listing, nmol)] = used if best is not None and len(ok_sets) == 1 else "tie"
    nontrivial = any("X" in k for k in keys) or len(cands) >= 2
    return viols, nontrivial


# ---------------------------------------------------------------- bonds / angles / constraints / macros / opls
def simple_cases(tier):
    for sec, n in (("bonds", 2), ("angles", 3), ("constraints", 2)):
        for entry in ("exact", "reversed", "absent", "both-equal-types"):
            for listing in ("fwd", "bwd"):
                for nmol in (1, 2, 3):
                    yield dict(kind="simple", sec=sec, n=n, entry=entry, listing=listing, nmol=nmol)
    for macro in ("whole", "partial", "with-function", "with-function+types"):
        for nmol in (1, 2):
            yield dict(kind="macro", macro=macro, nmol=nmol)
    for listing in ("fwd", "bwd"):
        yield dict(kind="opls", listing=listing)


def check_simple(case, stats):
    viols = []
    sec, n = case["sec"], case["n"]
    seq = ["TA", "TB", "TC"][:n]
    if case["entry"] == "both-equal-types":
        seq = ["TA"] * n
    tsec = sec[:-1] + "types"
    params = "1 0.123 456" if sec != "constraints" else "1 0.123"
    entries = {"exact": [" ".join(seq) + " " + params], "reversed": [" ".join(seq[::-1]) + " " + params], "absent": ["TD TD" + (" TD" if n == 3 else "") + " " + params],
               "both-equal-types": [" ".join(seq) + " " + params]}[case["entry"]]
    idx = list(range(1, n + 1))
    if case["listing"] == "bwd":
        idx = idx[::-1]
    inter = {sec: [" ".join(map(str, idx)) + " 1"]}
    if sec != "bonds":
        inter["bonds"] = ["1 2 1 0.1 10"] + (["2 3 1 0.1 10"] if n == 3 else [])
        inter = dict(sorted(inter.items()))
    text = top_text(AT_LINES, {tsec: entries}, seq + ["TD"], inter, case["nmol"])
    try:
        top = read_pre(text)
    except OSError:
        if case["entry"] != "absent":
            viols.append(dict(assertion="type-found-exact-or-reversed", tags=[], message=f"OSError for {case}", case=case, detail={}))
        return viols, False
    except Exception as exc:  # noqa
        return [crash_violation(exc, case, assertion="preprocess-does-not-crash")], False
    if case["entry"] == "absent":
        viols.append(dict(assertion="error-iff-no-matching-type", tags=[], message=f"no error for {case}", case=case, detail={}))
        return viols, False
    for ninst, inst in enumerate(inter_of(top, sec)):
        got = [p for a, p in inst if len(a) == n and (sec != "bonds" or a == tuple(i - 1 for i in idx))]
        if tuple(params.split()) not in got:
            viols.append(dict(assertion="type-found-exact-or-reversed", tags=[], message=f"instance {ninst}: {inst} lacks {params} for {case}", case=case, detail={}))
    return viols, case["entry"] == "reversed" or case["listing"] == "bwd"


def check_macro(case, stats):
    viols = []
    # KB and ANG are defined twice (a force-field value, then the user's override): as for cpp the last definition counts
    defines = ["KB 0.10 9999", "ANG 90.0", "KB 0.35 1250", "ANG 120.0", "FLEX"]
    bonds = ["1 2 1 KB"] if case["macro"] == "whole" else ["1 2 1 0.47 1250"]
    angles = ["1 2 3 2 ANG 25.0"]
    types = {}
    if case["macro"].startswith("with-function"):
        # the macro is the only token after the atoms: it supplies the function type as well; with and without a bonded
        # type of the same atom types in the tables (which must not be used: the interaction has its parameters)
        defines = defines + ["GBF 1 0.35 1250", "GAF 2 120.0 25.0"]
        bonds, angles = ["1 2 GBF"], ["1 2 3 GAF"]
        if case["macro"] == "with-function+types":
            types = {"bondtypes": ["TA TB 1 0.99 999"], "angletypes": ["TA TB TC 2 99.0 9.0"]}
    text = top_text(AT_LINES, types, ["TA", "TB", "TC"], {"bonds": bonds + ["2 3 1 0.2 300"], "angles": angles}, case["nmol"], defines=defines)
    try:
        top = read_pre(text)
    except Exception as exc:  # noqa
        return [crash_violation(exc, case, assertion="preprocess-does-not-crash")], True
    wantb = ("1", "0.35", "1250") if case["macro"] != "partial" else ("1", "0.47", "1250")
    for n, (ib, ia) in enumerate(zip(inter_of(top, "bonds"), inter_of(top, "angles"))):
        if ((0, 1), wantb) not in ib:
            viols.append(dict(assertion="define-macros-substituted", tags=[], message=f"instance {n} bonds {ib}", case=case, detail={}))
        if ((0, 1, 2), ("2", "120.0", "25.0")) not in ia:
            viols.append(dict(assertion="define-macros-substituted", tags=[], message=f"instance {n} angles {ia}", case=case, detail={}))
    return viols, True


def check_opls(case, stats):
    viols = []
    at = ["opls_1 CT 6 12.0 0.0 A 0.35 0.3", "opls_2 HC 1 1.0 0.0 A 0.25 0.1", "opls_3 CT 6 12.0 0.1 A 0.35 0.3"]
    idx = "1 2" if case["listing"] == "fwd" else "2 1"
    text = top_text(at, {"bondtypes": ["CT HC 1 0.109 2845", "CT CT 1 0.153 2242"]}, ["opls_1", "opls_2", "opls_3"],
                    {"bonds": [idx + " 1", "1 3 1"]}, 2, defines=["_FF_OPLS"])
    try:
        top = read_pre(text)
    except Exception as exc:  # noqa
        return [crash_violation(exc, case, assertion="preprocess-does-not-crash")], True
    for n, ib in enumerate(inter_of(top, "bonds")):
        pars = sorted(p for a, p in ib)
        if pars != [("1", "0.109", "2845"), ("1", "0.153", "2242")]:
            viols.append(dict(assertion="bond-type-indirection", tags=[], message=f"instance {n}: {ib}", case=case, detail={}))
    return viols, True


# ---------------------------------------------------------------- several molecule types
def multimol_cases(tier):
    for order in ("multi-first", "multi-last", "multi-middle", "multi-on-two-lines"):
        for counts in ((1, 1, 1), (2, 1, 2), (1, 3, 1)):
            yield dict(kind="multimol", order=order, counts=list(counts))


def check_multimol(case, stats):
    """three molecule types: MULTI has a dihedral resolved to a 3-term type, SINGLE to a 1-term type, PLAIN has explicit
    parameters; every instance must carry exactly the terms of its own type, whatever the definition order"""
    viols = []
    at = [f"{t} 12.0 0.0 A 0.3 0.1" for t in ("TA", "TB", "TC", "TD", "UA", "UB", "UC", "UD")]
    # the second line is there twice: every listed line is a term of its own
    dtypes = ["TA TB TC TD 9 0 1.5 1", "TA TB TC TD 9 180 2.5 2", "TA TB TC TD 9 180 2.5 2", "TA TB TC TD 9 60 3.5 3", "UA UB UC UD 9 30 7.5 1"]
    mols = {"MULTI": (["TA", "TB", "TC", "TD"], "1 2 3 4 9"), "SINGLE": (["UA", "UB", "UC", "UD"], "4 3 2 1 9"),
            "PLAIN": (["UA", "TB", "UC", "TD"], "1 2 3 4 9 11 2.2 3")}
    # 'multi-on-two-lines': the molecule type with the multi-term dihedral is listed on two separate lines of [ molecules ]
    order = {"multi-first": ["MULTI", "SINGLE", "PLAIN"], "multi-last": ["SINGLE", "PLAIN", "MULTI"], "multi-middle": ["PLAIN", "MULTI", "SINGLE"],
             "multi-on-two-lines": ["MULTI", "SINGLE", "MULTI"]}[case["order"]]
    out = ["[ defaults ]", "1 2 no 1.0 1.0", "[ atomtypes ]"] + at + ["[ dihedraltypes ]"] + dtypes
    for name in dict.fromkeys(order):
        types, dline = mols[name]
        out += ["[ moleculetype ]", f"{name} 1", "[ atoms ]"] + [f"{i} {t} 1 R a{i} {i} 0.0 12.0" for i, t in enumerate(types, 1)]
        out += ["[ bonds ]", "1 2 1 0.1 10", "2 3 1 0.1 10", "3 4 1 0.1 10", "[ dihedrals ]", dline]
    out += ["[ system ]", "v", "[ molecules ]"] + [f"{n} {c}" for n, c in zip(order, case["counts"])]
    try:
        top = read_pre("\n".join(out) + "\n")
    except Exception as exc:  # noqa
        return [crash_violation(exc, case, assertion="preprocess-does-not-crash")], True
    want = {"MULTI": sorted([("9", "0", "1.5", "1"), ("9", "180", "2.5", "2"), ("9", "180", "2.5", "2"), ("9", "60", "3.5", "3")]),
            "SINGLE": [("9", "30", "7.5", "1")], "PLAIN": [("9", "11", "2.2", "3")]}
    for n, mm in enumerate(top.molecules):
        got = sorted(tuple(str(p) for p in i.parameters) for i in mm.molecule.interactions.get("dihedrals", []))
        if got != want[mm.mol_name]:
            viols.append(dict(assertion="all-terms-in-every-instance", tags=["several-molecule-types"],
                              message=f"instance {n} ({mm.mol_name}) dihedral terms {got} expected {want[mm.mol_name]} | order {order} counts {case['counts']}", case=case, detail={}))
    return viols, True


# ---------------------------------------------------------------- the same atom types in two sections with their own tables
def twosec_cases(tier):
    for layout in ("one-molecule", "bond-molecule-first", "constraint-molecule-first"):
        for bdir in ("fwd", "bwd"):
            for cdir in ("fwd", "bwd"):
                for tdir in ("same", "reversed"):
                    for counts in ((1, 1), (2, 2)):
                        yield dict(kind="twosec", layout=layout, bdir=bdir, cdir=cdir, tdir=tdir, counts=list(counts))


def check_twosec(case, stats):
    """a bond and a constraint between atoms of the same two types, both written with the function only: the bond takes its
    parameters from [ bondtypes ], the constraint from [ constrainttypes ], in one molecule type or in two (either order),
    whatever direction the two are listed in"""
    viols = []
    at = [f"{t} 12.0 0.0 A 0.3 0.1" for t in ("TA", "TB")]
    ctype = "TA TB 1 0.147" if case["tdir"] == "same" else "TB TA 1 0.147"
    out = ["[ defaults ]", "1 2 no 1.0 1.0", "[ atomtypes ]"] + at + ["[ bondtypes ]", "TA TB 1 0.153 3347", "[ constrainttypes ]", ctype]
    bline = "1 2 1" if case["bdir"] == "fwd" else "2 1 1"
    cline = "3 4 1" if case["cdir"] == "fwd" else "4 3 1"
    atoms4 = [f"{i} {t} 1 R a{i} {i} 0.0 12.0" for i, t in enumerate(["TA", "TB", "TA", "TB"], 1)]
    if case["layout"] == "one-molecule":
        mols = [("M", atoms4, ["[ bonds ]", bline, "2 3 1 0.2 100", "[ constraints ]", cline])]
    else:
        mb = ("MB", atoms4[:2], ["[ bonds ]", bline])
        mc = ("MC", atoms4[:2], ["[ bonds ]", "1 2 5", "[ constraints ]", cline.replace("3", "1").replace("4", "2")])
        mols = [mb, mc] if case["layout"] == "bond-molecule-first" else [mc, mb]
    for name, atoms, inter in mols:
        out += ["[ moleculetype ]", f"{name} 1", "[ atoms ]"] + atoms + inter
    out += ["[ system ]", "v", "[ molecules ]"] + [f"{name} {c}" for (name, _, _), c in zip(mols, case["counts"])]
    try:
        top = read_pre("\n".join(out) + "\n")
    except Exception as exc:  # noqa
        return [crash_violation(exc, case, assertion="preprocess-does-not-crash")], True
    for n, mm in enumerate(top.molecules):
        for sec, want in (("bonds", ("1", "0.153", "3347")), ("constraints", ("1", "0.147"))):
            for i in mm.molecule.interactions.get(sec, []):
                got = tuple(str(p) for p in i.parameters)
                if len(got) > 1 and got[1] in ("0.2",):
                    continue
                if got in (("5",),):
                    continue
                if got != want:
                    viols.append(dict(assertion="type-from-the-table-of-its-own-section", tags=["same-types-in-two-sections"],
                                      message=f"instance {n} ({mm.mol_name}) {sec} {tuple(i.atoms)}: parameters {got} expected {want} | {case}", case=case, detail={}))
    return viols, True


# ---------------------------------------------------------------- non-bonded
def nb_cases(tier):
    types = ["TA", "TB", "TC"]
    pairs = list(itertools.combinations_with_replacement(types, 2))
    grid = [(0.0026, 2.6e-06), (0.15, 0.0001), (1.0, 1.0)]
    for comb in (1, 2, 3):
        for gp in ("yes", "no"):
            for r in range(0, len(pairs) + 1):
                for sub in itertools.combinations(range(len(pairs)), r):
                    if tier == "quick" and r not in (0, 1, 2, len(pairs)):
                        continue
                    yield dict(kind="nb", comb=comb, genpairs=gp, explicit=list(sub), gridshift=(r + comb) % 6)


def check_nb(case, stats):
    viols = []
    types = ["TA", "TB", "TC"]
    pairs = list(itertools.combinations_with_replacement(types, 2))
    grid = [(0.0026, 2.6e-06), (0.00012, 6e-09), (0.15, 0.0001), (2e-09, 3e-15), (1.0, 1.0), (3.5, 0.02)]   # incl. hydrogen-like tiny C12 / C6
    self_par = {t: grid[(i + case["gridshift"]) % 6] for i, t in enumerate(types)}
    at = [f"{t} 12.0 0.0 A {self_par[t][0]} {self_par[t][1]}" for t in types]
    expl = {}
    for n, pi in enumerate(case["explicit"]):
        a, b = pairs[pi]
        expl[frozenset((a, b))] = grid[(n + 1 + case["gridshift"]) % 6]
    nb_lines = []
    for n, pi in enumerate(case["explicit"]):
        a, b = pairs[pi]
        v = expl[frozenset((a, b))]
        # written in either order
        nb_lines.append((f"{b} {a}" if n % 2 else f"{a} {b}") + f" 1 {v[0]} {v[1]}")
    text = top_text(at, {}, types, {"bonds": ["1 2 1 0.1 10", "2 3 1 0.1 10"]}, 1, defaults=f"1 {case['comb']} {case['genpairs']} 1.0 1.0", nonbond=nb_lines)
    try:
        top = read_pre(text)
    except Exception as exc:  # noqa
        return [crash_violation(exc, case, assertion="preprocess-does-not-crash")], True
    nbp = top.nonbond_params
    conv = case["comb"] == 1

    def expect(raw):
        if not conv:
            return raw
        c6, c12 = raw
        return ((c12 / c6) ** (1 / 6.0), c6 ** 2 / (4 * c12))
    for t in types:
        key = frozenset((t, t))
        raw = expl.get(key, self_par[t])
        if key not in nbp:
            viols.append(dict(assertion="self-terms-from-atom-types", tags=[], message=f"{t}-{t} missing | {case}", case=case, detail={}))
            continue
        got = (nbp[key]["nb1"], nbp[key]["nb2"])
        want = expect(raw)
        if not all(math.isclose(g, w, rel_tol=1e-9) for g, w in zip(got, want)):
            viols.append(dict(assertion="explicit-overrides-and-self-terms" if key in expl else "self-terms-from-atom-types", tags=[],
                              message=f"{t}-{t}: {got} expected {want} | {case}", case=case, detail={}))
        if conv:
            sig, eps = got
            c6, c12 = raw
            if not (math.isclose(4 * eps * sig ** 6, c6, rel_tol=1e-9) and math.isclose(4 * eps * sig ** 12, c12, rel_tol=1e-9)):
                viols.append(dict(assertion="c6-c12-conversion-reproduces-table", tags=[], message=f"{t}-{t}: sigma {sig} eps {eps} from C6 {c6} C12 {c12}", case=case, detail={}))
    for a, b in itertools.combinations(types, 2):
        key = frozenset((a, b))
        if key in expl:
            if key not in nbp:
                viols.append(dict(assertion="explicit-overrides-and-self-terms", tags=[], message=f"explicit {a}-{b} missing", case=case, detail={}))
                continue
            got = (nbp[key]["nb1"], nbp[key]["nb2"])
            want = expect(expl[key])
            if not all(math.isclose(g, w, rel_tol=1e-9) for g, w in zip(got, want)):
                viols.append(dict(assertion="explicit-overrides-and-self-terms", tags=[], message=f"{a}-{b}: {got} expected explicit {want} | {case}", case=case, detail={}))
        elif case["genpairs"] == "yes":
            if key not in nbp:
                viols.append(dict(assertion="pairs-generated-when-requested", tags=[], message=f"{a}-{b} not generated | {case}", case=case, detail={}))
        else:
            if key in nbp:
                viols.append(dict(assertion="no-pairs-generated-when-not-requested", tags=[], message=f"{a}-{b} present with gen-pairs no | {case}", case=case, detail={}))
    # symmetric in the pair: the table must not depend on the order in which the atom types are declared (a generated A-B
    # value computed as f(first declared, second declared) with an asymmetric f shows here; the rule itself is not judged)
    if case["genpairs"] == "yes" and not viols:
        text2 = top_text(at[::-1], {}, types, {"bonds": ["1 2 1 0.1 10", "2 3 1 0.1 10"]}, 1, defaults=f"1 {case['comb']} {case['genpairs']} 1.0 1.0", nonbond=nb_lines)
        try:
            nbp2 = read_pre(text2).nonbond_params
        except Exception as exc:  # noqa
            return [crash_violation(exc, case, assertion="preprocess-does-not-crash")], True
        for key in sorted(nbp, key=sorted):
            g1 = (nbp[key]["nb1"], nbp[key]["nb2"])
            g2 = (nbp2[key]["nb1"], nbp2[key]["nb2"]) if key in nbp2 else None
            if g2 is None or not all(math.isclose(x, y, rel_tol=1e-12, abs_tol=0.0) for x, y in zip(g1, g2)):
                viols.append(dict(assertion="pair-parameters-symmetric", tags=["atom-types-declared-in-reverse-order"],
                                  message=f"{sorted(key)}: {g1} with the atom types declared in one order, {g2} in the reverse order | {case}", case=case, detail={}))
    return viols, bool(case["explicit"])


# ---------------------------------------------------------------- function types
FUNC_TABLES = {
    # section: (types section, n atoms, {function: parameter strings})
    "dihedrals": ("dihedraltypes", 4, {"9": ["0 1.5 1"], "4": ["180 10.5 2"], "2": ["35.3 334"], "1": ["120 3.5 3"]}),
    "angles": ("angletypes", 3, {"1": ["109.5 400"], "5": ["110.0 300 0.21 2000"], "2": ["120 50"]}),
    "bonds": ("bondtypes", 2, {"1": ["0.153 2000"], "2": ["0.153 9.5e6"], "6": ["0.16 800"]}),
}


def functype_cases(tier):
    for sec, (tsec, n, table) in FUNC_TABLES.items():
        funcs = sorted(table)
        for present in itertools.chain.from_iterable(itertools.combinations(funcs, r) for r in (1, 2, 3)):
            for order in (present, present[::-1]) if len(present) > 1 else (present,):
                for wanted in funcs:
                    for wild in ((False, True) if sec == "dihedrals" else (False,)):
                        for listing in ("fwd", "bwd"):
                            yield dict(kind="functype", sec=sec, present=list(order), wanted=wanted, wild=wild, listing=listing)


def check_functype(case, stats):
    """a types table holding entries of several function types for the same atom types (proper / improper dihedral types,
    harmonic / Urey-Bradley angles, ...): an interaction takes the entry of its own function type, as grompp does"""
    sec = case["sec"]
    tsec, n, table = FUNC_TABLES[sec]
    seq = ["TA", "TB", "TC", "TD"][:n]
    lines = []
    for f in case["present"]:
        key = seq
        if case["wild"]:
            # the improper-like functions get a pattern with the wildcards in front, the others on the outside
            key = (["X", "X"] + seq[2:]) if f in ("4", "2") else (["X"] + seq[1:3] + ["X"])
        for par in table[f]:
            lines.append(" ".join(key) + f" {f} {par}")
    idx = list(range(1, n + 1))
    if case["listing"] == "bwd" and not (case["wild"]):
        idx = idx[::-1]
    inter = {"bonds": ["1 2 1 0.1 10", "2 3 1 0.1 10", "3 4 1 0.1 10"][: max(1, n - 1)]}
    if sec == "bonds":
        inter = {}
    inter[sec] = [" ".join(map(str, idx)) + " " + case["wanted"]]
    text = top_text(AT_LINES, {tsec: lines}, seq + (["TD"] if n < 4 else []), inter, 2)
    info = f" | [ {tsec} ] {lines}; interaction {inter[sec][0]!r}"
    viols = []
    want = sorted((case["wanted"],) + tuple(par.split()) for par in table[case["wanted"]]) if case["wanted"] in case["present"] else None
    pure = ["table-has-only-the-wanted-function"] if case["present"] == [case["wanted"]] else []
    try:
        top = read_pre(text)
    except OSError as exc:
        if want is not None:
            viols.append(dict(assertion="bonded-type-of-same-function", tags=["error-although-type-present"] + pure, message=f"OSError {exc}" + info, case=case, detail={}))
        return viols, True
    except Exception as exc:  # noqa
        return [crash_violation(exc, case, assertion="preprocess-does-not-crash")], True
    for inst in inter_of(top, sec):
        got = sorted(p for a, p in inst if len(a) == n and (sec != "bonds" or p[1:] != ("0.1", "10")))
        if want is None:
            viols.append(dict(assertion="bonded-type-of-same-function", tags=["no-type-of-this-function"],
                              message=f"no entry of function {case['wanted']} exists, the interaction got {got} instead of an error" + info, case=case, detail={}))
        elif got != want:
            viols.append(dict(assertion="bonded-type-of-same-function", tags=["other-function-mixed-in"] + pure,
                              message=f"got {got} expected {want}" + info, case=case, detail={}))
        break
    return viols, len(case["present"]) > 1


def cases(tier):
    batch = list(functype_cases(tier))
    for i in range(0, len(batch), 24):
        yield dict(kind="batch", items=batch[i:i + 24], tier=tier)
    batch = []
    for c in dih_cases(tier):
        batch.append(c)
        if len(batch) == 24:
            yield dict(kind="batch", items=batch, tier=tier)
            batch = []
    if batch:
        yield dict(kind="batch", items=batch, tier=tier)
    batch = list(simple_cases(tier)) + list(multimol_cases(tier)) + list(twosec_cases(tier))
    for i in range(0, len(batch), 12):
        yield dict(kind="batch", items=batch[i:i + 12], tier=tier)
    batch = list(nb_cases(tier))
    for i in range(0, len(batch), 24):
        yield dict(kind="batch", items=batch[i:i + 24], tier=tier)


FUNCS = {"twosec": check_twosec, "functype": check_functype, "multimol": check_multimol, "dih": check_dih, "simple": check_simple, "macro": check_macro, "opls": check_opls, "nb": check_nb}


def run_case(case):
    items = case["items"] if case["kind"] == "batch" else [case]
    evals, keys, viols, stats = 0, [], [], {}
    for it in items:
        v, nt = FUNCS[it["kind"]](it, stats)
        evals += 6 if it["kind"] == "dih" else 1
        stats[f"inputs_{it['kind']}"] = stats.get(f"inputs_{it['kind']}", 0) + 1
        if len(viols) < 40:
            viols += v
        if nt:
            keys.append(json.dumps({k: v for k, v in it.items() if k != "single"}, sort_keys=True))
    return dict(evals=evals, keys=keys, violations=viols, stats=stats, sample=items[0])
