"""C08 - a topology is read as its preprocessed, flattened equivalent (E3 over include trees)."""
import itertools, json, os
import numpy as np
from .. import gp_harness as H
from ..runner import crash_violation

PID = "C08"
LEVEL = "exploration"
RULE = ("include trees from a grammar: force-field part {inline, one include, nested include through a sub-directory with a "
        "../-relative include, type file included twice} x #define placement {before, after, never} x {bare flag, macro with a value} x molecule A {inline, "
        "include, include under ifdef/ifndef/ifdef-else/ifndef-else with an alternative definition in the other branch} x "
        "molecule B included from a nested directory x #error placement {none, ifdef, ifndef, else-branches, unconditional} at "
        "{top before molecules, top after an inline moleculetype, inside an included file} x a missing file behind an inactive "
        "condition x every [ molecules ] list of <=3 entries over the defined names with counts {1,2} x noise (comments, blank "
        "lines, trailing whitespace). Oracle: digest of Topology.from_gmx_topfile(tree) == digest of the reference-flattened "
        "single file == digest predicted by the generator (defaults, atom types, guarded bond types, defines, molecule types with "
        "atom counts, molecule list, mol_idx_by_name); #error raises iff active; instances are independent copies. "
        "distinct_nontrivial = distinct trees with >=1 conditional include or nested directory")
ASSUMPTIONS = ["files are whole-section units; #define only outside conditionals; conditional wrappers of includes are resolved (dropped) in the flattened file"]
BUDGET = {"quick": 420, "thorough": 2400}

DEFAULTS = "[ defaults ]\n1 2 no 1.0 1.0\n"
ATYPES = {"T1": "T1 72.0 0.0 A 0.47 4.0", "T2": "T2 36.0 0.0 A 0.41 2.0"}
BONDTYPES = ("[ bondtypes ]\nT1 T1 1 0.33 500\n#ifdef STIFF\nT1 T2 1 0.30 9000\n#else\nT1 T2 1 0.31 8000\n#endif\nT2 T2 1 0.29 700\n"
             "#ifndef SOFT\nT2 T2 1 0.28 600\n#else\nT2 T2 1 0.27 500\n#endif\n")


def mol_text(name, natoms):
    out = [f"[ moleculetype ]", f"{name} 1", "[ atoms ]"]
    for i in range(1, natoms + 1):
        out.append(f"{i} T{1 + i % 2} {i} R{name} a{i} {i} 0.0")
    if natoms > 1:
        out.append("[ bonds ]")
        for i in range(1, natoms):
            out.append(f"{i} {i + 1}")
    return "\n".join(out) + "\n"


FF_LAYOUTS = ["inline", "include", "nested", "twice"]
DEFINE_AT = ["before", "after", "never"]
A_MODES = ["inline", "include", "ifdef", "ifndef", "ifdef-else", "ifndef-else"]
ERR_KINDS = ["none", "ifdef", "ifndef", "ifdef-else", "ifndef-else", "always"]
ERR_POS = ["top-before", "top-after-inline-mol", "in-include"]


def cases(tier):
    lists = mol_lists(tier)
    i = 0
    for ff, dfn, amode, ek in itertools.product(FF_LAYOUTS, DEFINE_AT, A_MODES, ERR_KINDS):
        for ep in ERR_POS if ek != "none" else ["top-before"]:
            if tier == "quick" and ff in ("nested", "twice") and amode in ("ifdef", "ifndef") and ek not in ("none", "ifdef"):
                continue
            if i == 0:
                yield _reread_case(tier)
            for dmode in (["none", "ifdef", "ifndef"] if amode == "inline" and ek in ("none", "ifdef") else ["none"]):
                yield dict(ff=ff, define=dfn, amode=amode, err=ek, errpos=ep, dmode=dmode, tier=tier, idx=i)
                i += 1
                if dfn != "never" and (ek != "none" or amode not in ("inline", "include") or dmode != "none"):
                    # the macro the conditions test is defined with a value (#define M 42) instead of as a bare flag
                    yield dict(ff=ff, define=dfn, amode=amode, err=ek, errpos=ep, dmode=dmode, tier=tier, idx=i, mval=True)
                    i += 1


def _reread_case(tier):
    return dict(kind="reread", tier=tier, idx=-1)


def mol_lists(tier):
    names = ["A", "B", "C"]
    out = []
    for n in (1, 2, 3):
        for seq in itertools.product(names, repeat=n):
            out.append([(s, 1 + (k % 2)) for k, s in enumerate(seq)])
    return out


def cond_active(kind, defined):
    if kind in ("ifdef", "ifdef-else"):
        return defined
    if kind in ("ifndef", "ifndef-else"):
        return not defined
    return True


def build_tree(cfg, mols, noise, missing_guard):
    """returns (files {relpath: text}, flat text, expectation dict)"""
    files = {}
    top, flat = [], []
    M_defined_at_eval = cfg["define"] == "before"
    exp = dict(defaults={"nbfunc": 1.0, "comb-rule": 2.0, "gen-pairs": "no", "fudgeLJ": 1.0, "fudgeQQ": 1.0},
               atypes={"T1", "T2"}, defines=set(), blocks={}, error=False, tags=[], tags_tree=[], tags_flat=[])
    at_text = "[ atomtypes ]\n" + ATYPES["T1"] + "\n" + ATYPES["T2"] + "\n"

    def emit(text):
        top.append(text)
        flat.append(text)

    def include(path_written, content_path, content, active=True):
        top.append(f'#include "{path_written}"\n')
        if content is not None:
            files[content_path] = content
        if active and content is not None:
            flat.append(content)
    mdef = "#define M 42\n" if cfg.get("mval") else "#define M\n"
    if cfg["define"] == "before":
        emit(mdef + "#define KB 0.35 1250\n")
        exp["defines"] |= {"M", "KB"}
    # ---- force field part
    if cfg["ff"] == "inline":
        emit(DEFAULTS + at_text + BONDTYPES)
    elif cfg["ff"] == "include":
        include("ff/all.itp", "ff/all.itp", DEFAULTS + at_text + BONDTYPES)
    elif cfg["ff"] == "nested":
        files["ff/types.itp"] = at_text
        files["common/bt.itp"] = BONDTYPES
        files["ff/ff.itp"] = DEFAULTS + '#include "types.itp"\n#include "../common/bt.itp"\n'
        top.append('#include "ff/ff.itp"\n')
        flat.append(DEFAULTS + at_text + BONDTYPES)
    else:
        emit(DEFAULTS)
        include("ff/types.itp", "ff/types.itp", at_text)
        include("ff/types.itp", "ff/types.itp", at_text)
        # the file with the bond types is reached twice as well: as for cpp, its text counts every time (entries listed twice)
        include("ff/bt.itp", "ff/bt.itp", BONDTYPES)
        include("ff/bt.itp", "ff/bt.itp", BONDTYPES)
    # ---- missing file behind an inactive condition
    if missing_guard:
        kind = "ifndef" if M_defined_at_eval else "ifdef"
        top.append(f'#{kind} M\n#include "does/not/exist.itp"\n#endif\n')

    def error_block(kind):
        if kind == "always":
            return "#error stop-here\n", True
        active_main = cond_active(kind, M_defined_at_eval)
        if kind.endswith("-else"):
            # the #error sits in the else branch
            return f"#{kind.split('-')[0]} M\n#else\n#error stop-here\n#endif\n", not active_main
        return f"#{kind} M\n#error stop-here\n#endif\n", active_main
    if cfg["err"] != "none" and cfg["errpos"] == "top-before":
        text, act = error_block(cfg["err"])
        emit(text)
        exp["error"] = exp["error"] or act
    # ---- molecule A
    a_main, a_alt = mol_text("A", 2), mol_text("A", 3)
    if cfg["amode"] == "inline":
        emit(a_main)
        exp["blocks"]["A"] = 2
    elif cfg["amode"] == "include":
        include("mols/a.itp", "mols/a.itp", a_main)
        exp["blocks"]["A"] = 2
    else:
        kind = cfg["amode"]
        active_main = cond_active(kind, M_defined_at_eval)
        files["mols/a.itp"] = a_main
        files["mols/a_alt.itp"] = a_alt
        if kind.endswith("-else"):
            top.append(f'#{kind.split("-")[0]} M\n#include "mols/a.itp"\n#else\n#include "mols/a_alt.itp"\n#endif\n')
            flat.append(a_main if active_main else a_alt)
            exp["blocks"]["A"] = 2 if active_main else 3
        else:
            top.append(f'#{kind} M\n#include "mols/a.itp"\n#endif\n')
            if active_main:
                flat.append(a_main)
                exp["blocks"]["A"] = 2
    if cfg["err"] != "none" and cfg["errpos"] == "top-after-inline-mol":
        text, act = error_block(cfg["err"])
        emit(text)
        exp["error"] = exp["error"] or act
        if cfg["amode"] == "inline":
            exp["tags_tree"].append("pragma-after-inline-moleculetype")
        if "A" in exp["blocks"]:
            exp["tags_flat"].append("pragma-after-inline-moleculetype")
    # ---- molecule D: conditional include that follows an inline moleculetype in the same file
    if cfg.get("dmode", "none") != "none":
        files["mols/d.itp"] = mol_text("D", 2)
        act = cond_active(cfg["dmode"], M_defined_at_eval)
        top.append(f'#{cfg["dmode"]} M\n#include "mols/d.itp"\n#endif\n')
        if act:
            flat.append(mol_text("D", 2))
            exp["blocks"]["D"] = 2
        exp["tags_tree"].append("pragma-after-inline-moleculetype")
    # ---- molecules B and C from a nested directory; C is included from inside B's file with a ../ path
    files["mols/sub/c.itp"] = mol_text("C", 1)
    b_text = mol_text("B", 1) + '#include "sub/c.itp"\n'
    err_in_inc = ""
    if cfg["err"] != "none" and cfg["errpos"] == "in-include":
        err_in_inc, act = error_block(cfg["err"])
        exp["error"] = exp["error"] or act
        exp["tags_tree"].append("pragma-after-inline-moleculetype")
        exp["tags_flat"].append("pragma-after-inline-moleculetype")
    files["mols/b.itp"] = mol_text("B", 1) + err_in_inc + '#include "sub/c.itp"\n'
    top.append('#include "mols/b.itp"\n')
    flat.append(mol_text("B", 1) + err_in_inc + mol_text("C", 1))
    exp["blocks"]["B"] = 1
    exp["blocks"]["C"] = 1
    if cfg["define"] == "after":
        emit(mdef + "#define KB 0.35 1250\n")
        exp["defines"] |= {"M", "KB"}
    # ---- system
    use = [(n, c) for n, c in mols if n in exp["blocks"]]
    sys_text = "[ system ]\nverif system\n[ molecules ]\n" + "".join(f"{n} {c}\n" for n, c in use)
    emit(sys_text)
    exp["molecules"] = [n for n, c in use for _ in range(c)]
    toptext, flattext = "".join(top), "".join(flat)
    if noise:
        toptext = add_noise(toptext)
        # ... and the included files end without a final newline (as a script writing "\n".join(lines) leaves them)
        files = {k: add_noise(v).rstrip("\n") for k, v in files.items()}
    files["sys.top"] = toptext
    return files, flattext, exp


def add_noise(text):
    out = []
    for i, line in enumerate(text.splitlines()):
        if i % 3 == 0:
            out.append("; a comment line")
        if i % 4 == 1:
            out.append("")
        if line.startswith(("#ifdef ", "#ifndef ")):
            # directive and macro name separated by two blanks / a tab / followed by blanks, as cpp allows
            word, tag = line.split(None, 1)
            out.append(word + ("  ", "\t", " ")[i % 3] + tag + ("", "  ")[i % 2])
        elif line.startswith("#"):
            out.append(line)
        else:
            out.append(line + ("   " if i % 2 else " ; trailing comment"))
    return "\n".join(out) + "\n"


def digest(top):
    d = {}
    d["defaults"] = {k: top.defaults.get(k) for k in ("nbfunc", "comb-rule", "gen-pairs", "fudgeLJ", "fudgeQQ")}
    d["atypes"] = {k: (v["mass"], v["nb1"], v["nb2"], v["ptype"]) for k, v in sorted(top.atom_types.items())}
    d["types"] = {sec: {" ".join(k): [([str(x) for x in p], None if m is None else dict(m)) for p, m in v] for k, v in sorted(tab.items())}
                  for sec, tab in sorted(top.types.items())}
    d["defines"] = {k: (v if v is True else list(v)) for k, v in sorted(top.defines.items())}
    d["blocks"] = {name: (len(b.nodes), sorted((sec, [list(i.atoms) for i in lst]) for sec, lst in b.interactions.items() if lst))
                   for name, b in sorted(top.force_field.blocks.items())}
    d["molecules"] = [(m.mol_name, len(m.nodes), len(m.molecule.nodes)) for m in top.molecules]
    d["mol_idx_by_name"] = {k: list(v) for k, v in sorted(top.mol_idx_by_name.items()) if v}
    return d


def read(path):
    from polyply.src.topology import Topology
    try:
        return ("OK", Topology.from_gmx_topfile(path, "verif"))
    except NotImplementedError as exc:
        return ("ERROR-PRAGMA", str(exc))
    except Exception as exc:  # noqa
        return ("EXC", exc)


def check_tree(cfg, mols, noise, missing_guard):
    viols = []
    files, flattext, exp = build_tree(cfg, mols, noise, missing_guard)
    case1 = dict(cfg, single=dict(mols=mols, noise=noise, missing_guard=missing_guard))
    tags = list(exp["tags"])

    def bad(assertion, msg, t=()):
        viols.append(dict(assertion=assertion, tags=sorted(set(tags) | set(t)),
                          message=msg + f" | cfg={ {k: cfg.get(k) for k in ('ff', 'define', 'amode', 'err', 'errpos', 'mval')} } mols={mols} noise={noise} missing_guard={missing_guard}",
                          case=case1, detail={}))
    with H.tempdir() as d:
        for rel, text in files.items():
            p = d / "tree" / rel
            p.parent.mkdir(parents=True, exist_ok=True)
            p.write_text(text)
        # decoys: files with the same relative names directly under the working directory, defining other values;
        # a reader that resolves a nested include against the cwd would silently read them
        for rel, text in files.items():
            if rel != "sys.top":
                p = d / rel
                p.parent.mkdir(parents=True, exist_ok=True)
                p.write_text(text.replace("72.0", "99.0").replace("36.0", "98.0").replace(" 0.33 500", " 0.99 9999"))
        (d / "flat").mkdir()
        (d / "flat" / "sys.top").write_text(flattext)
        cwd = os.getcwd()
        os.chdir(d)       # a reader that resolved includes against the cwd instead of the including file would fail
        try:
            r_tree = read(d / "tree" / "sys.top")
            r_flat = read(d / "flat" / "sys.top")
        finally:
            os.chdir(cwd)
    for label, r in (("tree", r_tree), ("flat", r_flat)):
        if r[0] == "EXC":
            if exp["error"]:
                bad("error-pragma-aborts-with-its-message", f"{label}: expected the #error to abort, got {type(r[1]).__name__}: {r[1]}")
            else:
                v = crash_violation(r[1], case1, assertion=f"{label}-file-readable", tags=tags)
                viols.append(v)
    if any(r[0] == "EXC" for r in (r_tree, r_flat)):
        return viols, exp
    for label, r in (("tree", r_tree), ("flat", r_flat)):
        if exp["error"] and r[0] != "ERROR-PRAGMA":
            bad("error-aborts-iff-active", f"{label}: active #error did not abort reading", exp["tags_" + label])
        if not exp["error"] and r[0] == "ERROR-PRAGMA":
            bad("error-aborts-iff-active", f"{label}: inactive #error aborted reading", exp["tags_" + label])
    if r_tree[0] != "OK" or r_flat[0] != "OK":
        return viols, exp
    dt, df = digest(r_tree[1]), digest(r_flat[1])
    if dt != df:
        keys = [k for k in dt if dt[k] != df[k]]
        bad("tree-equals-flattened", f"digests differ in {keys}: tree {[dt[k] for k in keys][:2]} flat {[df[k] for k in keys][:2]}", exp["tags_tree"])
    # prediction of the generator
    if dt["defaults"] != exp["defaults"]:
        bad("defaults-read", f"{dt['defaults']}")
    if set(dt["atypes"]) != exp["atypes"]:
        bad("atomtypes-read", f"{sorted(dt['atypes'])}")
    if set(dt["defines"]) != exp["defines"] or (exp["defines"] and dt["defines"].get("KB") != ["0.35", "1250"]) or \
            (exp["defines"] and dt["defines"].get("M") != (["42"] if cfg.get("mval") else True)):
        bad("defines-read", f"{dt['defines']} expected {sorted(exp['defines'])}")
    bt = dt["types"].get("bonds", {})
    want_bt = {"T1 T1": [(["1", "0.33", "500"], None)],
               "T1 T2": [(["1", "0.30", "9000"], {"tag": "STIFF", "condition": "ifdef"}), (["1", "0.31", "8000"], {"tag": "STIFF", "condition": "ifndef"})],
               "T2 T2": [(["1", "0.29", "700"], None), (["1", "0.28", "600"], {"tag": "SOFT", "condition": "ifndef"}),
                         (["1", "0.27", "500"], {"tag": "SOFT", "condition": "ifdef"})]}
    n_inc = 2 if cfg["ff"] == "twice" else 1
    got_bt = {k: [(p, m) for p, m in v] for k, v in bt.items()}
    if {k: v for k, v in got_bt.items()} != {k: v * n_inc for k, v in want_bt.items()}:
        bad("type-tables-read", f"bondtypes {got_bt}")
    got_blocks = {k: v[0] for k, v in dt["blocks"].items()}
    if got_blocks != exp["blocks"]:
        bad("molecule-types-as-flattened", f"molecule types {got_blocks} expected {exp['blocks']}", exp["tags_tree"])
    if [m[0] for m in dt["molecules"]] != exp["molecules"]:
        bad("molecule-list-expanded-in-order", f"{[m[0] for m in dt['molecules']]} expected {exp['molecules']}")
    want_idx = {}
    for i, n in enumerate(exp["molecules"]):
        want_idx.setdefault(n, []).append(i)
    if dt["mol_idx_by_name"] != want_idx:
        bad("molecule-list-expanded-in-order", f"mol_idx_by_name {dt['mol_idx_by_name']} expected {want_idx}")
    for name, nres, nat in dt["molecules"]:
        if nat != exp["blocks"][name]:
            bad("molecule-list-expanded-in-order", f"instance of {name} has {nat} atoms expected {exp['blocks'][name]}")
    # instances are independent copies
    top = r_tree[1]
    byname = {}
    for i, m in enumerate(top.molecules):
        byname.setdefault(m.mol_name, []).append(i)
    for name, idxs in byname.items():
        if len(idxs) >= 2:
            a, b = top.molecules[idxs[0]], top.molecules[idxs[1]]
            block = top.force_field.blocks[name]
            n0 = list(a.molecule.nodes)[0]
            a.molecule.nodes[n0]["position"] = np.array([1.0, 2.0, 3.0])
            a.molecule.nodes[n0]["verif_marker"] = 1
            r0 = list(a.nodes)[0]
            a.nodes[r0]["verif_marker"] = 1
            nb_before = sum(len(v) for v in b.molecule.interactions.values())
            from vermouth.molecule import Interaction
            a.molecule.interactions["bonds"].append(Interaction(atoms=(n0, n0), parameters=["9"], meta={}))
            if "position" in b.molecule.nodes[list(b.molecule.nodes)[0]] or "verif_marker" in b.molecule.nodes[list(b.molecule.nodes)[0]] \
                    or "verif_marker" in b.nodes[list(b.nodes)[0]] or "verif_marker" in block.nodes[list(block.nodes)[0]] \
                    or sum(len(v) for v in b.molecule.interactions.values()) != nb_before:
                bad("instances-independent", f"changing instance {idxs[0]} of {name} changed instance {idxs[1]} or the molecule type")
    return viols, exp


def check_reread(cfg):
    """one directory, read, rewritten in place with another tree of the same file names, read again (one process): the second
    read must equal reading the second tree from a fresh directory - reading depends on the files on disk only"""
    viols, evals, keys = [], 0, []
    variants = []
    for ff in ("include", "nested"):
        for dfn in ("before", "never"):
            for amode in ("include", "ifdef"):
                variants.append(dict(ff=ff, define=dfn, amode=amode, err="none", errpos="top-before", dmode="none"))
    lists = [[("A", 1), ("B", 2)], [("B", 1), ("A", 1), ("C", 1)], [("C", 2)]]
    import os
    for (ia, va), (ib, vb) in itertools.permutations(list(enumerate(variants)), 2):
        if va["ff"] != vb["ff"] or (ia + ib) % 3:
            continue
        for la, lb in ((lists[0], lists[1]), (lists[1], lists[2])):
            fa, _, _ = build_tree(va, la, False, False)
            fb, _, _ = build_tree(vb, lb, True, False)
            # the second tree differs from the first in every file (masses, force constants), included files too
            fb = {k: v.replace("72.0", "73.5").replace("36.0", "37.5").replace(" 0.33 500", " 0.34 510") for k, v in fb.items()}
            evals += 1
            case1 = dict(kind="reread", one=[va, la, vb, lb])
            with H.tempdir() as d:
                def write(root, files):
                    for rel, text in files.items():
                        p = root / rel
                        p.parent.mkdir(parents=True, exist_ok=True)
                        p.write_text(text)
                write(d / "fresh", fb)
                ref = read(d / "fresh" / "sys.top")
                write(d / "work", fa)
                first = read(d / "work" / "sys.top")
                for rel in fa:
                    if rel not in fb:
                        (d / "work" / rel).unlink()
                write(d / "work", fb)
                second = read(d / "work" / "sys.top")
                # the same from inside the directory with bare relative names
                old = os.getcwd()
                os.chdir(d / "work")
                try:
                    third = read("sys.top")
                finally:
                    os.chdir(old)
            if ref[0] != "OK" or first[0] != "OK":
                continue
            want = digest(ref[1])
            for label, got in (("absolute path", second), ("relative path from inside the directory", third)):
                if got[0] != "OK" or digest(got[1]) != want:
                    what = got[0] if got[0] != "OK" else [k for k in want if digest(got[1]).get(k) != want[k]]
                    if len(viols) < 10:
                        viols.append(dict(assertion="reading-depends-on-the-files-on-disk-only", tags=["re-read-after-rewrite"],
                                          message=f"second read ({label}) of a directory rewritten in place differs from a fresh read of the same files: {what}", case=case1, detail={}))
            keys.append(json.dumps([ia, ib, la, lb]))
    return dict(evals=evals, keys=keys, violations=viols, stats={"rereads": evals}, sample=dict(kind="reread", pairs=evals))


def run_case(cfg):
    if cfg.get("kind") == "reread":
        return check_reread(cfg)
    if cfg.get("single"):
        s = cfg["single"]
        v, _ = check_tree(cfg, [tuple(m) for m in s["mols"]], s["noise"], s["missing_guard"])
        return dict(evals=1, keys=[], violations=v, stats={})
    lists = mol_lists(cfg["tier"])
    # the molecule lists rotate over the tree shapes: every list meets every (ff, define) layout, every shape meets >= 8 lists
    step = 5 if cfg["tier"] == "quick" else 1
    evals, keys, viols = 0, [], []
    stats = dict(errors_expected=0, trees_with_inactive_branch=0)
    for li in range(cfg["idx"] % step, len(lists), step):
        for noise in (False, True):
            mg = (li + int(noise)) % 2 == 0
            v, exp = check_tree(cfg, lists[li], noise, mg)
            evals += 1
            stats["errors_expected"] += int(exp["error"])
            if len(viols) < 12:
                viols += v
            keys.append(json.dumps([cfg["ff"], cfg["define"], cfg["amode"], cfg["err"], cfg["errpos"], cfg.get("dmode"), bool(cfg.get("mval")), lists[li], noise, mg]))
    return dict(evals=evals, keys=keys, violations=viols, stats=stats,
                sample={k: cfg[k] for k in ("ff", "define", "amode", "err", "errpos", "dmode")})
