"""Reference model of gen_params: block instantiation, link matching, modifications,
missing-link set, effective exclusions.  Brute force, no polyply / vermouth / GraphMatcher.

Input: spec (see ffmodel.py) and a residue graph rg =
dict(n, edges=[[i,j]], resids=[...], resnames=[...], linktype={"i-j": str}, node_attrs={"i": {...}}).
"""
import itertools
from .ffmodel import split_key, order_of, EDGE_SECTIONS


class Unspecified(Exception):
    """the input is outside the domain on which the property statement is unambiguous"""


class Rejected(Exception):
    """the reference says gen_params must refuse this input"""


# ------------------------------------------------------------------ blocks
def instantiate(spec, rg):
    """Residues in residue-id order; returns (atoms, inter, edges, res_atoms) where
    atoms = list of dicts, inter = {(sec, atoms_tuple, version): (params, meta)},
    edges = set(frozenset), res_atoms = {node index: [atom positions]}"""
    order = sorted(range(rg["n"]), key=lambda i: rg["resids"][i])
    resids = [rg["resids"][i] for i in order]
    if resids != list(range(resids[0], resids[0] + len(resids))):
        raise Unspecified("residue ids not contiguous")
    for i in range(rg["n"]):
        if rg["resnames"][i] not in spec["blocks"]:
            raise Rejected("unknown block")
    nrexcls = {spec["blocks"][rg["resnames"][i]]["nrexcl"] for i in range(rg["n"])}
    atoms, inter, edges, res_atoms = [], {}, set(), {}
    last_cg = 0
    for i in order:
        blk = spec["blocks"][rg["resnames"][i]]
        off = len(atoms)
        pos = {}
        for k, (an, at, q, m, cg) in enumerate(blk["atoms"]):
            pos[an] = off + k
            atoms.append(dict(atomname=an, atype=at, charge=q, mass=m, charge_group=cg + last_cg,
                              resname=rg["resnames"][i], resid=rg["resids"][i], block=rg["resnames"][i],
                              node=i, excl=blk["nrexcl"]))
        last_cg = atoms[-1]["charge_group"]
        res_atoms[i] = [off + k for k in range(len(blk["atoms"]))]
        for sec, lst in blk["inter"].items():
            for names, params, meta in lst:
                at = tuple(pos[a] for a in names)
                key = (sec, at, meta.get("version", 1))
                if key in inter:
                    raise Unspecified("block defines the same atoms and version twice")
                inter[key] = (tuple(params), dict(meta), "block")
                if sec in EDGE_SECTIONS and meta.get("edge", True):
                    for a, b in zip(at[:-1], at[1:]):
                        edges.add(frozenset((a, b)))
    return atoms, inter, edges, res_atoms, min(nrexcls), len(nrexcls) > 1


# ------------------------------------------------------------------ order table (vermouth documentation)
def _otype(o):
    if isinstance(o, int):
        return "n", o
    if set(o) == {">"}:
        return "gl", len(o)
    if set(o) == {"<"}:
        return "gl", -len(o)
    if set(o) == {"*"}:
        return "star", len(o)
    raise ValueError(o)


def sign(x):
    return (x > 0) - (x < 0)


def order_ok(o1, r1, o2, r2):
    (t1, v1), (t2, v2) = _otype(o1), _otype(o2)
    if t1 == "n" and t2 == "n":
        return (v2 - v1) == (r2 - r1)
    if t1 == "n" and v1 == 0 and t2 == "gl":
        return sign(r2 - r1) == sign(v2)
    if t2 == "n" and v2 == 0 and t1 == "gl":
        return sign(r1 - r2) == sign(v1)
    if t1 == "gl" and t2 == "gl":
        return sign(r2 - r1) == sign(v2 - v1)
    if (t1 == "n" and v1 == 0 and t2 == "star") or (t2 == "n" and v2 == 0 and t1 == "star"):
        return r1 != r2
    if t1 == "star" and t2 == "star":
        return (v1 == v2) == (r1 == r2)
    return True   # '!' entries of the table: not considered


# ------------------------------------------------------------------ links
def link_nodes(link):
    """{key: attrs} with order / atomname / resname / extra; replace kept separately"""
    nodes = {}

    def touch(key, attrs=None):
        prefix, base = split_key(key)
        nd = nodes.setdefault(key, {"order": order_of(prefix), "atomname": base})
        if link.get("resname"):
            nd.setdefault("resname", list(link["resname"]))
        for k, v in (attrs or {}).items():
            if k == "resname" and isinstance(v, str):
                v = v.split("|")
            nd[k] = v
    for key, attrs in (link.get("atoms") or {}).items():
        touch(key, attrs)
    for sec, lst in link.get("inter", {}).items():
        for names, params, meta in lst:
            for key in names:
                touch(key)
    for a, b, _ in link.get("edges", []) or []:
        touch(a)
        touch(b)
    return nodes


def link_edges(link):
    """atom-level edges of the link: {frozenset(keys): attrs}"""
    out = {}
    for sec, lst in link.get("inter", {}).items():
        if sec in EDGE_SECTIONS:
            for names, params, meta in lst:
                if meta.get("edge", True):
                    for a, b in zip(names[:-1], names[1:]):
                        if a != b:
                            out.setdefault(frozenset((a, b)), {})
    for a, b, attrs in link.get("edges", []) or []:
        out.setdefault(frozenset((a, b)), {}).update(attrs)
    return out


SELECT_IGNORE = ("order", "charge_group", "replace", "resid")


def value_matches(have, want):
    if isinstance(want, list):       # choice
        return have in want
    return have == want


def atom_candidates(rg, atoms, res_atoms, node, nattrs, first_node):
    """atoms of residue `node` matching the link atom's attributes.  Attributes of the residue-graph node are
    visible on the atoms of a residue (statement: 'extra atom attributes' / labels carried by the residue)."""
    out = []
    extra = dict(rg.get("node_attrs", {}).get(str(node), {}))
    for p in res_atoms[node]:
        a = dict(extra)
        a.update({k: atoms[p][k] for k in ("atomname", "atype", "charge", "mass", "resname")})
        ok = True
        for k, v in nattrs.items():
            if k in SELECT_IGNORE:
                continue
            if not value_matches(a.get(k), v):
                ok = False
                break
        if ok:
            out.append(p)
    return out


def apply_links(spec, rg, atoms, inter, edges, res_atoms, stats=None):
    """Sequential over links in definition order (non-edge / pattern vetoes see the molecule as modified by the
    links before; within one link the order of matches is irrelevant on the judged domain - checked)."""
    n = rg["n"]
    radj = {frozenset(e): rg.get("linktype", {}).get(f"{e[0]}-{e[1]}") for e in rg["edges"]}
    first_node = min(range(n), key=lambda i: rg["resids"][i])
    replaced = {}          # atom position -> {attr: value}
    removed = set()
    present = set(rg["resnames"])
    stats = stats if stats is not None else {}
    cur = [dict(a) for a in atoms]      # attributes as seen by patterns / non-edges (updated by replace)
    for li, link in enumerate(spec["links"]):
        nodes = link_nodes(link)
        # polyply prefilter: a link is considered when one of its residue names occurs in the molecule
        names = set()
        for nd in nodes.values():
            rn = nd.get("resname")
            if rn is not None:
                names.update(rn if isinstance(rn, list) else [rn])
        if not (names & present):
            continue
        ledges = link_edges(link)
        orders = []
        for nd in nodes.values():
            if nd["order"] not in orders:
                orders.append(nd["order"])
        # residue-level link graph
        redges = {}
        for e, attrs in ledges.items():
            a, b = tuple(e)
            oa, ob = nodes[a]["order"], nodes[b]["order"]
            if oa == ob:
                continue
            key = frozenset((str(oa), str(ob)))
            lt = attrs.get("linktype")
            if key in redges and redges[key] != lt:
                redges[key] = None
            else:
                redges[key] = lt
        new_inter, new_edges, new_repl, new_rm = [], set(), {}, set()
        for assign in itertools.permutations(range(n), len(orders)):
            f = dict(zip(orders, assign))
            ok = True
            for o1, o2 in itertools.combinations(orders, 2):
                le = frozenset((str(o1), str(o2)))
                re_ = frozenset((f[o1], f[o2]))
                if (le in redges) != (re_ in radj):
                    ok = False
                    break
                if le in redges and redges[le] != radj[re_]:
                    ok = False
                    break
                if not order_ok(o1, rg["resids"][f[o1]], o2, rg["resids"][f[o2]]):
                    ok = False
                    break
            if not ok:
                stats["rejected_candidates"] = stats.get("rejected_candidates", 0) + 1
                continue
            # resname of every link atom must fit its residue
            if any(nd.get("resname") is not None and not value_matches(rg["resnames"][f[nd["order"]]], nd["resname"])
                   for nd in nodes.values()):
                stats["rejected_candidates"] = stats.get("rejected_candidates", 0) + 1
                continue
            sel = {}
            for key, nd in nodes.items():
                cands = atom_candidates(rg, atoms, res_atoms, f[nd["order"]], nd, first_node)
                if len(cands) != 1:
                    sel = None
                    break
                sel[key] = cands[0]
            if sel is None:
                stats["rejected_candidates"] = stats.get("rejected_candidates", 0) + 1
                continue
            # non-edges: veto when the from-atom has a bonded neighbour matching the template in residue resid+order
            veto = False
            all_edges = edges | new_edges_so_far(new_edges)
            for a, b, battrs in link.get("non_edges", []) or []:
                prefix, base = split_key(b)
                to_order = order_of(prefix)
                if not isinstance(to_order, int):
                    raise Unspecified("non-edge with non-numeric order")
                tmpl = {"atomname": base}
                if link.get("resname"):
                    tmpl["resname"] = list(link["resname"])
                tmpl.update({k: (v.split("|") if k == "resname" and isinstance(v, str) else v) for k, v in battrs.items()})
                src = sel[a]
                for e in all_edges:
                    if src in e and len(e) == 2:
                        (other,) = tuple(e - {src})
                        if cur[other]["resid"] == cur[src]["resid"] + to_order and \
                                all(value_matches(cur[other].get(k), v) for k, v in tmpl.items()):
                            veto = True
            if veto:
                stats["rejected_candidates"] = stats.get("rejected_candidates", 0) + 1
                stats["non_edge_vetoes"] = stats.get("non_edge_vetoes", 0) + 1
                continue
            pats = link.get("patterns") or []
            if pats:
                def row_ok(row):
                    for key, tattrs in row:
                        t = {k: (v.split("|") if k == "resname" and isinstance(v, str) and "|" in v else v)
                             for k, v in tattrs.items()}
                        if not all(value_matches(cur[sel[key]].get(k), v) for k, v in t.items() if k not in ("order", "replace")):
                            return False
                    return True
                if not any(row_ok(r) for r in pats):
                    stats["rejected_candidates"] = stats.get("rejected_candidates", 0) + 1
                    stats["pattern_vetoes"] = stats.get("pattern_vetoes", 0) + 1
                    continue
            stats["applied_matches"] = stats.get("applied_matches", 0) + 1
            for key, nd in nodes.items():
                rep = nd.get("replace")
                if rep:
                    if "atomname" in rep and rep["atomname"] is None:
                        new_rm.add(sel[key])
                    else:
                        new_repl.setdefault(sel[key], {}).update(rep)
            for sec, lst in link.get("inter", {}).items():
                for names_, params, meta in lst:
                    at = tuple(sel[k] for k in names_)
                    new_inter.append(((sec, at, meta.get("version", 1)), (tuple(params), dict(meta), f"link{li}")))
            for e in ledges:
                a, b = tuple(e)
                new_edges.add(frozenset((sel[a], sel[b])))
        # two matches of one link writing different values under one key would make the result order dependent
        seen = {}
        for key, val in new_inter:
            if key in seen and seen[key][:2] != val[:2]:
                raise Unspecified("one link defines the same atoms twice with different parameters")
            seen[key] = val
        inter.update(seen)
        edges |= new_edges
        for p, rep in new_repl.items():
            replaced.setdefault(p, {}).update(rep)
            cur[p].update(rep)
        removed |= new_rm
    return inter, edges, replaced, removed


def new_edges_so_far(s):
    return set(s)


# ------------------------------------------------------------------ whole pipeline
def build(spec, rg, mods=None, stats=None):
    """Expected molecule. mods: list of (resid, resname, modname) or None."""
    atoms, inter, edges, res_atoms, nrexcl, mixed = instantiate(spec, rg)
    block_inter = dict(inter)
    inter, edges, replaced, removed = apply_links(spec, rg, atoms, inter, edges, res_atoms, stats)
    final_atoms = [dict(a) for a in atoms]
    for p, rep in replaced.items():
        final_atoms[p].update(rep)
    touched_atoms = set(replaced) | removed
    if removed:
        inter = {k: v for k, v in inter.items() if not (set(k[1]) & removed)}
        edges = {e for e in edges if not (e & removed)}
    mod_touched = set()
    if mods:
        for resid, resname, modname in mods:
            mod = spec["mods"][modname]
            node = [i for i in range(rg["n"]) if rg["resids"][i] == resid]
            if not node:
                raise Rejected("modification target missing")
            node = node[0]
            byname = {final_atoms[p]["atomname"]: p for p in res_atoms[node]}
            for an, attrs in mod["atoms"]:
                if an in byname and attrs.get("replace"):
                    final_atoms[byname[an]].update(attrs["replace"])
                    mod_touched.add(byname[an])
            for sec, lst in mod["inter"].items():
                for names_, params, meta in lst:
                    at = tuple(byname[a] for a in names_)
                    inter[(sec, at, ("mod", modname, len(inter)))] = (tuple(params), dict(meta), "mod")
    # missing links: residue edges without an atom-level edge between the residues
    owner = {}
    for node, plist in res_atoms.items():
        for p in plist:
            owner[p] = node
    bonded = set()
    for e in edges:
        if len(e) == 2:
            a, b = tuple(e)
            if owner[a] != owner[b]:
                bonded.add(frozenset((owner[a], owner[b])))
    missing = [tuple(e) for e in rg["edges"] if frozenset(e) not in bonded]
    return dict(atoms=final_atoms, inter=inter, block_inter=block_inter, edges=edges, removed=removed,
                replaced=replaced, mod_touched=mod_touched, res_atoms=res_atoms, nrexcl=nrexcl, mixed_nrexcl=mixed,
                missing=missing)


# ------------------------------------------------------------------ exclusions (C14)
def bond_distances(n_atoms, edges):
    adj = {i: set() for i in range(n_atoms)}
    for e in edges:
        if len(e) == 2:
            a, b = tuple(e)
            adj[a].add(b)
            adj[b].add(a)
    dist = {}
    for s in range(n_atoms):
        d = {s: 0}
        frontier = [s]
        while frontier:
            nxt = []
            for u in frontier:
                for v in adj[u]:
                    if v not in d:
                        d[v] = d[u] + 1
                        nxt.append(v)
            frontier = nxt
        dist[s] = d
    return dist


def expected_exclusions(exp):
    """{frozenset(a,b)} excluded: 1 <= d(a,b) <= max(excl(a), excl(b)) or explicit exclusion"""
    atoms = exp["atoms"]
    dist = bond_distances(len(atoms), exp["edges"])
    out = set()
    for a in range(len(atoms)):
        for b, d in dist[a].items():
            if a != b and 1 <= d <= max(atoms[a]["excl"], atoms[b]["excl"]):
                out.add(frozenset((a, b)))
    for (sec, at, ver), _ in exp["inter"].items():
        if sec == "exclusions":
            for other in at[1:]:
                if other != at[0]:
                    out.add(frozenset((at[0], other)))
    return out
