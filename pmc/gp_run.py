"""Shared case runner for C01 / C02: one case = one force-field variant x one residue-graph size."""
import copy, json
from . import ffmodel as F, gp_harness as H, gp_compare, ref_genparams as R, gp_cases
from .runner import crash_violation

_FF_CACHE = {}


def parsed_ff(variant, spec, syntax="ff"):
    key = json.dumps([variant, syntax], sort_keys=True)
    if key not in _FF_CACHE:
        if len(_FF_CACHE) > 50:
            _FF_CACHE.clear()
        _FF_CACHE[key] = H.parse_ff([("ff", F.render_ff(spec))])
    return copy.deepcopy(_FF_CACHE[key])


def classify_tags(variant, rg, exp):
    tags = ["links:" + "+".join(variant["links"])]
    if exp and exp["removed"]:
        tags.append("link-removes-atom")
    return tags


def run_one(variant, spec, rg, owner, stats):
    """returns list of violations owned by `owner` for this single input"""
    viols = []
    case1 = {"variant": variant, "rg": rg, "single": True}
    rstats = {}
    try:
        exp = R.build(spec, rg, stats=rstats)
    except R.Unspecified:
        stats["skipped_unspecified"] = stats.get("skipped_unspecified", 0) + 1
        return viols, None, rstats
    except R.Rejected:
        exp = None
    ff = parsed_ff(variant, spec)
    g = H.build_resgraph(rg)
    try:
        mm, missing = H.run_processors(ff, g)
    except Exception as exc:  # noqa
        if exp is None:
            return viols, None, rstats
        v = crash_violation(exc, case1, assertion="pipeline-accepts-valid-input",
                            tags=classify_tags(variant, rg, exp))
        v["owner"] = "C02" if "apply_links" in json.dumps(v["detail"]) else "C01"
        if v["owner"] == owner or owner == "*":
            viols.append(v)
        return viols, None, rstats
    if exp is None:
        if owner in ("C01", "*"):
            viols.append(dict(assertion="unknown-block-rejected", tags=[], message="input with unknown block accepted",
                              case=case1, detail={}))
        return viols, None, rstats
    obs = H.mol_digest(mm.molecule)
    for own, assertion, msg, tags in gp_compare.compare(obs, exp):
        if own == owner or owner == "*":
            viols.append(dict(assertion=assertion, tags=sorted(set(tags + classify_tags(variant, rg, exp)[1:])),
                              message=msg + f" | links={variant['links']} rg={json.dumps(rg)}", case=case1, detail={}))
    return viols, exp, rstats


def run_case(case, owner):
    variant = case["variant"]
    spec = gp_cases.make_spec(variant)
    stats = {}
    if case.get("single"):
        v, exp, rs = run_one(variant, spec, case["rg"], owner, stats)
        return dict(evals=1, keys=[], violations=v, stats=stats)
    evals, keys, viols = 0, [], []
    applied = rejected = 0
    for rg in gp_cases.graphs_for(variant, case["n"], case["tier"], starts=tuple(case["starts"]) if case.get("starts") else None):
        if case.get("first_resname") and rg["resnames"][rg["resids"].index(min(rg["resids"]))] != case["first_resname"]:
            continue
        v, exp, rs = run_one(variant, spec, rg, owner, stats)
        evals += 1
        if len(viols) < 30:
            viols += v
        if exp is not None:
            a, r = rs.get("applied_matches", 0), rs.get("rejected_candidates", 0)
            applied += a
            rejected += r
            for k in ("non_edge_vetoes", "pattern_vetoes"):
                stats[k] = stats.get(k, 0) + rs.get(k, 0)
            nontrivial = (a > 0 and r > 0) if owner == "C02" else \
                (rg["n"] >= 2 and len({len(spec["blocks"][x]["atoms"]) for x in rg["resnames"]}) >= 2)
            if nontrivial:
                keys.append(json.dumps([variant["links"], rg], sort_keys=True))
    stats["link_matches_applied"] = applied
    stats["link_candidates_rejected"] = rejected
    sample = {"links": variant["links"], "n": case["n"], "inputs": evals}
    return dict(evals=evals, keys=keys, violations=viols, stats=stats, sample=sample)
