"""Bounded-exhaustive residue graphs: every connected graph on n nodes (up to isomorphism) under every
distinct assignment of contiguous residue ids (n!/|Aut| labellings)."""
import itertools
from functools import lru_cache


@lru_cache(None)
def connected_graphs(n):
    """canonical list of edge lists of all connected simple graphs on n labelled-by-position nodes, one per
    isomorphism class (brute force; n <= 5)."""
    nodes = list(range(n))
    pairs = list(itertools.combinations(nodes, 2))
    seen, out = set(), []
    for r in range(n - 1, len(pairs) + 1):
        for es in itertools.combinations(pairs, r):
            if not _connected(n, es):
                continue
            canon = min(tuple(sorted(tuple(sorted((p[a], p[b]))) for a, b in es))
                        for p in itertools.permutations(nodes))
            if canon in seen:
                continue
            seen.add(canon)
            out.append(list(canon))
    return out


def _connected(n, es):
    adj = {i: set() for i in range(n)}
    for a, b in es:
        adj[a].add(b)
        adj[b].add(a)
    seen, st = {0}, [0]
    while st:
        u = st.pop()
        for v in adj[u]:
            if v not in seen:
                seen.add(v)
                st.append(v)
    return len(seen) == n


@lru_cache(None)
def labelled_graphs(n):
    """all (edges, resid_rank) with resid_rank a permutation (rank of the residue id of node i), distinct up to
    automorphism: 1, 1, 4, 38, 728 for n = 1..5"""
    out = []
    for es in connected_graphs(n):
        eset = {frozenset(e) for e in es}
        seen = set()
        for perm in itertools.permutations(range(n)):
            # relabel: node i gets rank perm[i]; canonical form = edge set expressed in ranks
            key = frozenset(frozenset((perm[a], perm[b])) for a, b in es)
            if key in seen:
                continue
            seen.add(key)
            out.append((es, list(perm)))
    return out


def resgraphs(n, names, start=1, max_names=None):
    """yield rg dicts for every labelled graph on n nodes and every resname assignment over `names`"""
    for es, rank in labelled_graphs(n):
        for rn in itertools.product(names, repeat=n):
            yield dict(n=n, edges=[list(e) for e in es], resids=[start + r for r in rank], resnames=list(rn))
