"""E1: stateless, replay-based exploration of the implementation under a controlled chooser with iterative
deviation bounding.  A run is a function run(chooser) -> result; every source of nondeterminism and every injected
fault inside it asks chooser.choose(kind, n, default)."""


class ReplayDivergence(Exception):
    pass


class Horizon(Exception):
    """execution cut by the explicit horizon (neither pass nor violation)"""


GROUP = {"vec": "vec", "vec-retry": "retry", "grid": "grid", "fault-step": "fault", "fault-attempt": "fault", "fault-stage": "fault",
         "ee": "env", "uniform": "env", "angles": "env", "layout": "env"}


class Chooser:
    def __init__(self, prefix=(), horizon=400, defaults=None):
        self.prefix = list(prefix)
        self.trace = []          # (kind, n, choice, default)
        self.horizon = horizon
        self.counters = {}
        self.defaults = defaults or {}

    def choose(self, kind, n, default=0):
        if n <= 0:
            raise ReplayDivergence(f"{kind}: no options")
        i = len(self.trace)
        if i >= self.horizon:
            raise Horizon()
        if callable(default):
            default = default(self)
        default = default % n
        if i < len(self.prefix):
            c = self.prefix[i]
            if c >= n:
                raise ReplayDivergence(f"{kind}: prefix choice {c} out of range {n} at point {i}")
        else:
            c = default
        self.trace.append((kind, n, c, default))
        self.counters[kind] = self.counters.get(kind, 0) + 1
        return c

    def choices(self):
        return [t[2] for t in self.trace]

    def deviations(self):
        d = {}
        for kind, n, c, default in self.trace:
            if c != default:
                g = GROUP.get(kind, kind)
                d[g] = d.get(g, 0) + 1
        return d


def explore(run, bounds, max_execs=None, alt_filter=None, max_branch_point=150, stats=None):
    """Depth-first over choice prefixes. bounds = {group: max deviations, '*': max total}.
    Yields (prefix, chooser, result). run must be deterministic given the prefix."""
    stack = [[]]
    n_exec = 0
    while stack:
        prefix = stack.pop()
        ch = Chooser(prefix)
        result = run(ch)
        n_exec += 1
        yield prefix, ch, result
        if max_execs and n_exec >= max_execs:
            if stats is not None and stack:
                stats["explorations_cut_by_execution_cap"] = stats.get("explorations_cut_by_execution_cap", 0) + 1
            return
        trace = ch.trace
        dev = {}
        total = 0
        # deviations accumulated before point i
        per_point = []
        for kind, n, c, default in trace:
            per_point.append((dict(dev), total))
            if c != default:
                g = GROUP.get(kind, kind)
                dev[g] = dev.get(g, 0) + 1
                total += 1
        if len(trace) > max_branch_point and stats is not None:
            stats["unexpanded_points"] = stats.get("unexpanded_points", 0) + len(trace) - max_branch_point
        for i in range(min(len(trace), max_branch_point) - 1, len(prefix) - 1, -1):
            kind, n, c, default = trace[i]
            g = GROUP.get(kind, kind)
            dev_i, tot_i = per_point[i]
            if dev_i.get(g, 0) + 1 > bounds.get(g, 0):
                continue
            if tot_i + 1 > bounds.get("*", 10 ** 9):
                continue
            for alt in range(n):
                if alt == default:
                    continue
                if alt_filter and not alt_filter(kind, i, alt, trace):
                    continue
                stack.append([t[2] for t in trace[:i]] + [alt])
