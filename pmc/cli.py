import argparse, os, sys
from . import runner


def main():
    ap = argparse.ArgumentParser()
    ap.add_argument("pid")
    ap.add_argument("--tier", default=os.environ.get("VERIF_TIER", "quick"), choices=["quick", "thorough"])
    ap.add_argument("--replay")
    ap.add_argument("--budget", type=float)
    args = ap.parse_args()
    seed = int(os.environ.get("VERIF_SEED", "0"))
    import logging
    for name in ("polyply", "vermouth"):
        lg = logging.getLogger(name)
        lg.addHandler(logging.NullHandler())
        lg.propagate = False
    if args.pid == "setup":
        runner.check_repo_binding()
        import polyply, vermouth, networkx, numpy, scipy  # noqa
        print("setup ok: polyply from", polyply.__file__)
        return 0
    mod = f"pmc.props.{args.pid.lower()}"
    return runner.run_property(mod, args.tier, seed, replay=args.replay, budget_s=args.budget)


if __name__ == "__main__":
    sys.exit(main())
