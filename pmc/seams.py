"""Seams: for the duration of one execution every random source polyply touches is answered by a chooser, and
monitors mirror the engine / walk events.  Ownership is proved per execution: the global random states must be
bit-identical before and after."""
import contextlib, random, types
import numpy as np

AXIS6 = np.array([[1, 0, 0], [-1, 0, 0], [0, 1, 0], [0, -1, 0], [0, 0, 1], [0, 0, -1]], dtype=float)
DIAG8 = np.array([[a, b, c] for a in (1, -1) for b in (1, -1) for c in (1, -1)], dtype=float) / np.sqrt(3)
FACE12 = np.array([v for v in [[a, b, 0] for a in (1, -1) for b in (1, -1)] + [[a, 0, b] for a in (1, -1) for b in (1, -1)] +
                   [[0, a, b] for a in (1, -1) for b in (1, -1)]], dtype=float) / np.sqrt(2)
BUNDLES = {"axis6": AXIS6, "axis+diag14": np.vstack([AXIS6, DIAG8]), "axis+face18": np.vstack([AXIS6, FACE12])}


class Unowned(Exception):
    pass


def _np_state_digest():
    st = np.random.get_state()
    return (st[0], st[1].tobytes(), st[2], st[3], st[4])


@contextlib.contextmanager
def installed(chooser, bundle="axis6", rw_maxiter=None, events=None, fault_steps=False, fault_attempts=False,
              angle_options=None, seed=0, grid_default="round-robin", vec_default="first"):
    """Patch the random sources; yields a dict with bookkeeping. events: list that receives monitor events."""
    import polyply.src.build_system as bs
    import polyply.src.random_walk as rw
    import polyply.src.backmap as bm
    import polyply.src.persistence as ps
    import polyply.src.generate_templates as gt
    import polyply.src.nonbond_engine as nbe
    import networkx as nx
    import scipy.optimize

    vectors = BUNDLES[bundle] if isinstance(bundle, str) else np.asarray(bundle, dtype=float)
    saved = []

    def patch(obj, name, new):
        saved.append((obj, name, getattr(obj, name)))
        setattr(obj, name, new)

    random.seed(seed)
    np.random.seed(seed)
    rstate0, nstate0 = random.getstate(), _np_state_digest()
    book = {"attempts": {}, "events": events if events is not None else [], "unowned": 0}
    ev = book["events"]

    # ---- direction bundle
    patch(bs, "norm_sphere", lambda n=0: vectors.copy())
    # ---- vector index in _take_step
    orig_randint = random.randint

    vec_calls = {"n": 0}

    def py_randint(a, b):
        # default answer: first vector, or (for restraint systems, where a fixed answer can loop for ever) a vector that
        # rotates with the number of draws so far - still a deterministic function of the choice prefix
        default = 0 if vec_default == "first" else vec_calls["n"] * 5 + vec_calls["n"] // 7
        vec_calls["n"] += 1
        # macro-step reduction: inside one update_positions call only the FIRST try is a branching point. A rejected try
        # only deletes the vector from a local copy of the bundle (no engine event - checked by the oracle), so every
        # reachable post-state "accept v" is produced by trying v first; later tries follow the default order.
        kind = "vec" if vec_calls.get("first_try", True) else "vec-retry"
        vec_calls["first_try"] = False
        return a + chooser.choose(kind, b - a + 1, default)
    patch(random, "randint", py_randint)
    # ---- start grid index
    grid_calls = {"n": 0}

    def np_randint(n, *a, **k):
        default = grid_calls["n"] if grid_default == "round-robin" else 0
        grid_calls["n"] += 1
        return chooser.choose("grid", int(n), default)
    patch(np.random, "randint", np_randint)
    # ---- bending monte carlo
    def py_uniform(a, b):
        return [a, (a + b) / 2.0, b][chooser.choose("uniform", 3, 1)]
    patch(random, "uniform", py_uniform)
    patch(random, "seed", lambda *a, **k: None)
    patch(np.random, "seed", lambda *a, **k: None)
    # ---- persistence sampling
    def np_choice(arr, p=None, size=None, **k):
        arr = np.asarray(arr)
        n = len(arr)
        out = [arr[chooser.choose("ee", n, 0)] for _ in range(int(size) if size is not None else 1)]
        ev.append(("ee-sample", [float(x) for x in arr], [float(x) for x in out]))
        return np.array(out) if size is not None else out[0]
    patch(np.random, "choice", np_choice)
    # ---- backmap start angles + optimiser answer
    angle_options = angle_options

    def np_uniform(low=0.0, high=1.0, size=None):
        if size is None:
            return low
        return np.zeros(size) + low
    patch(np.random, "uniform", np_uniform)
    if angle_options is not None:
        real_min = scipy.optimize.minimize
        shim_opt = types.SimpleNamespace(**{k: getattr(scipy.optimize, k) for k in ("minimize",)})

        def fake_minimize(fun, x0, *a, **k):
            c = chooser.choose("angles", len(angle_options) + 1, 0)
            if c == 0:
                return real_min(fun, x0, *a, **k)
            return {"x": np.array(angle_options[c - 1], dtype=float), "success": True}
        shim = types.SimpleNamespace(optimize=types.SimpleNamespace(minimize=fake_minimize))
        patch(bm, "scipy", shim)
    # ---- template initial layout: deterministic, no global draws
    real_kk = nx.kamada_kawai_layout

    kk_calls = [0]

    def kk(G, dim=2, **k):
        # networkx starts the 3-d layout from np.random: here every call gets its own fixed stream, so that two template
        # generations in one execution start differently (as they do in reality) while the execution stays replayable
        nodes = list(G.nodes)
        rs = np.random.RandomState(12345 + kk_calls[0])
        kk_calls[0] += 1
        pos = {n: rs.rand(dim) for n in nodes}
        if len(nodes) == 1:
            return {nodes[0]: np.zeros(dim)}
        return real_kk(G, pos=pos, dim=dim, **k)
    shim_nx = types.SimpleNamespace(**{k: getattr(nx, k) for k in dir(nx) if not k.startswith("__")})
    shim_nx.kamada_kawai_layout = kk
    patch(gt, "nx", shim_nx)

    # ---- RandomWalk with tries-per-residue = len(bundle) - 1, optional faults
    RW = rw.RandomWalk
    nmax = (len(vectors) - 1) if rw_maxiter is None else rw_maxiter

    class VRandomWalk(RW):
        def __init__(self, mol_idx, nonbond_matrix, start=np.array([0, 0, 0]), step_fudge=0.8, maxiter=nmax,
                     maxdim=None, max_force=1e3, vector_sphere=None, start_node=None, nrewind=5):
            # same signature as RandomWalk (BuildSystem validates keyword names against it); only the default of
            # maxiter differs: tries per residue = len(bundle) - 1, RandomWalk's own constructor parameter
            super().__init__(mol_idx, nonbond_matrix, start=start, step_fudge=step_fudge, maxiter=maxiter,
                             maxdim=maxdim, max_force=max_force,
                             vector_sphere=vectors.copy() if vector_sphere is None else vector_sphere,
                             start_node=start_node, nrewind=nrewind)
            ev.append(("attempt", mol_idx, tuple(np.asarray(start, dtype=float).tolist())))

        def update_positions(self, vector_bundle, current_node, prev_node):
            ev.append(("step", self.mol_idx, current_node, prev_node))
            path = list(self.molecule.search_tree.edges)    # safe here: the walk has fixed the root already
            if not getattr(self, "_path_emitted", False):
                ev.append(("path", self.mol_idx, path,
                           {n: bool(self.molecule.nodes[n].get("build", True)) for n in self.molecule.nodes}))
                self._path_emitted = True
            ev.append(("step-check", self.mol_idx, path.index((prev_node, current_node))))
            vec_calls["first_try"] = True
            if fault_steps and chooser.choose("fault-step", 2, 0) == 1:
                ev.append(("step-result", self.mol_idx, current_node, False, "injected"))
                return False
            ok = super().update_positions(vector_bundle, current_node, prev_node)
            ev.append(("step-result", self.mol_idx, current_node, bool(ok), "real"))
            return ok

        def _rewind(self, current_step):
            ev.append(("rewind", self.mol_idx, [n for _, n in self.placed_nodes]))
            out = super()._rewind(current_step)
            ev.append(("rewound", self.mol_idx, out))
            return out

        def run_molecule(self, meta_molecule):
            if fault_attempts and chooser.choose("fault-attempt", 2, 0) == 1:
                self.molecule = meta_molecule
                self.success = False
                ev.append(("attempt-result", self.mol_idx, False, "injected"))
                return meta_molecule
            out = super().run_molecule(meta_molecule)
            ev.append(("attempt-result", self.mol_idx, bool(self.success), "real"))
            return out
    patch(bs, "RandomWalk", VRandomWalk)

    # ---- engine monitors
    NBE = nbe.NonBondEngine
    o_add, o_rm, o_cat, o_from = NBE.add_positions, NBE.remove_positions, NBE.concatenate_trees, NBE.from_topology

    def m_add(self, point, mol_idx, node_key, start=True, *a, **k):
        ev.append(("add", mol_idx, node_key, tuple(np.asarray(point, dtype=float).tolist()), bool(start)))
        return o_add(self, point, mol_idx, node_key, start, *a, **k)

    def m_rm(self, mol_idx, node_keys):
        keys = list(node_keys)
        ev.append(("remove", mol_idx, keys))
        return o_rm(self, mol_idx, keys)

    def m_cat(self):
        ev.append(("concat",))
        return o_cat(self)
    patch(NBE, "add_positions", m_add)
    patch(NBE, "remove_positions", m_rm)
    patch(NBE, "concatenate_trees", m_cat)
    orig_from = NBE.__dict__["from_topology"].__func__

    def m_from(cls, molecules, topology, box, *a, **k):
        eng = orig_from(cls, molecules, topology, box, *a, **k)
        book["engine"] = eng
        init = {}
        for (m, k), g in eng.nodes_to_gndx.items():
            if np.all(np.isfinite(eng.positions[g])):
                init[(m, k)] = tuple(eng.positions[g].tolist())
        ev.append(("engine", dict(init), tuple(np.asarray(box, dtype=float).tolist()), float(eng.cut_off)))
        book["sizes"] = {key: float(eng.interaction_matrix[frozenset([eng.atypes[g], eng.atypes[g]])][0])
                         for key, g in eng.nodes_to_gndx.items()}
        return eng
    patch(NBE, "from_topology", classmethod(m_from))

    try:
        yield book
    finally:
        for obj, name, old in reversed(saved):
            setattr(obj, name, old)
        if random.getstate() != rstate0 or _np_state_digest() != nstate0:
            book["unowned"] = 1
