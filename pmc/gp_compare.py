"""Compares an observed molecule digest (gp_harness.mol_digest) with the reference (ref_genparams.build)."""

ATOM_KEYS = ("atomname", "atype", "resname", "resid", "charge_group", "charge", "mass")


def compare(obs, exp, check_resid_after_removal=True):
    """returns list of (owner, assertion, message, tags); owner in {'C01','C02'}"""
    out = []
    removed = exp["removed"]
    keep = [p for p in range(len(exp["atoms"])) if p not in removed]
    newpos = {p: i for i, p in enumerate(keep)}
    okeys = [a["key"] for a in obs["atoms"]]
    kpos = {k: i for i, k in enumerate(okeys)}
    tags = []
    if removed:
        tags.append("link-removes-atom")
    # ---- atoms
    if len(obs["atoms"]) != len(keep):
        out.append(("C01", "atoms-exactly-those-of-the-blocks",
                    f"{len(obs['atoms'])} atoms, expected {len(keep)}", tags))
        return out
    for i, p in enumerate(keep):
        ea, oa = exp["atoms"][p], obs["atoms"][i]
        for k in ATOM_KEYS:
            if oa[k] != ea[k]:
                targeted = p in exp["replaced"] and k in exp["replaced"][p] or p in exp["mod_touched"]
                owner = "C02" if (p in exp["replaced"] and k in exp["replaced"][p]) else "C01"
                out.append((owner, "replace-applied-exactly" if owner == "C02" else f"atom-{k}-verbatim",
                            f"atom {i} ({ea['resname']}{ea['resid']}:{ea['atomname']}) {k}={oa[k]!r} expected {ea[k]!r}",
                            tags + ([f"attr:{k}"])))
    # ---- interactions
    oint = {}
    for sec, lst in obs["inter"].items():
        for atoms, params, meta in lst:
            try:
                at = tuple(kpos[a] for a in atoms)
            except KeyError:
                out.append(("C02", "interaction-on-existing-atoms", f"[{sec}] {atoms} refers to a missing atom", tags))
                continue
            key = (sec, at, meta.get("version", 1))
            if key in oint:
                out.append(("C01", "interaction-once-per-instance", f"[{sec}] {at} version {key[2]} present twice", tags))
            oint[key] = (tuple(params), dict(meta))
    eint = {}
    for (sec, at, ver), (params, meta, origin) in exp["inter"].items():
        key = (sec, tuple(newpos[a] for a in at), ver if not isinstance(ver, tuple) else 1)
        eint[key] = (params, meta, origin)
    owner_of = {}
    for node, plist in exp["res_atoms"].items():
        for p in plist:
            if p in newpos:
                owner_of[newpos[p]] = node
    for key, (params, meta, origin) in eint.items():
        sec, at, ver = key
        owner = "C01" if origin in ("block", "mod") else "C02"
        if key not in oint:
            # a block interaction may legitimately be overridden by a link on the same atoms: the reference handles it
            out.append((owner, "block-interaction-reappears" if owner == "C01" else "link-applied-where-it-matches",
                        f"[{sec}] {at} v{ver} {params} ({origin}) missing", tags + [f"sec:{sec}"]))
            continue
        op, om = oint[key]
        if tuple(op) != tuple(params):
            out.append((owner, "parameters-unchanged" if owner == "C01" else "link-parameters-last-definition-wins",
                        f"[{sec}] {at} v{ver}: params {op} expected {params} ({origin})", tags + [f"sec:{sec}"]))
        if om != meta:
            out.append((owner, "interaction-meta-unchanged", f"[{sec}] {at} v{ver}: meta {om} expected {meta}", tags + [f"sec:{sec}"]))
    for key in oint:
        if key not in eint:
            sec, at, ver = key
            res = {owner_of.get(a) for a in at}
            owner = "C01" if len(res) == 1 else "C02"
            out.append((owner, "no-invented-interaction" if owner == "C01" else "link-not-applied-where-it-does-not-match",
                        f"[{sec}] {at} v{ver} {oint[key][0]} present but not expected", tags + [f"sec:{sec}"]))
    # ---- edges
    oe = {frozenset(kpos[a] for a in e) for e in obs["edges"]}
    ee = {frozenset(newpos[a] for a in e) for e in exp["edges"] if len(e) == 2}
    for e in sorted(map(sorted, ee - oe)):
        res = {owner_of.get(a) for a in e}
        out.append(("C01" if len(res) == 1 else "C02", "edge-present", f"edge {e} missing", tags))
    for e in sorted(map(sorted, oe - ee)):
        res = {owner_of.get(a) for a in e}
        out.append(("C01" if len(res) == 1 else "C02", "edge-absent", f"edge {e} not expected", tags))
    return out
