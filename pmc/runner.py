"""Shared runner: enumerates the finite case set of one property check over a
process pool, aggregates coverage, filters known findings, writes replay files
and the evidence file.

A property module (pmc/props/cXX.py) provides

  PID, LEVEL, RULE, ASSUMPTIONS
  cases(tier)          -> iterable of JSON-able dicts (the finite set explored)
  run_case(case)       -> dict(evals=int, keys=[str], violations=[...],
                               stats={name:int}, sample=optional JSON)
  finalize(agg, tier)  -> optional; may return extra "vacuity" problems

A violation is dict(assertion=str, tags=[str], message=str, case=JSON, detail=JSON).
"""
import os, sys, json, time, hashlib, random, traceback, importlib
import multiprocessing as mp

VERIF = os.path.dirname(os.path.dirname(os.path.abspath(__file__)))
# evidence and replay files go to /verif unless a scratch run (mutation campaign against a copy of the repository) redirects them
OUT = os.environ.get("VERIF_OUT", VERIF)
REPO = os.environ.get("VERIF_REPO", "/repo")
NPROC = int(os.environ.get("VERIF_NPROC", "16"))


def h(obj):
    return hashlib.sha1(json.dumps(obj, sort_keys=True, default=str).encode()).hexdigest()[:12]


def check_repo_binding():
    import polyply
    path = os.path.realpath(polyply.__file__)
    if not path.startswith(os.path.realpath(REPO) + os.sep):
        print(f"HARNESS-ERROR polyply imported from {path}, not {REPO}")
        sys.exit(2)


def crash_violation(exc, case, assertion="no-crash-on-accepted-input", tags=()):
    """Turn an exception raised by the code under test into a violation."""
    tb = traceback.extract_tb(exc.__traceback__)
    where = [f"{os.path.basename(f.filename)}:{f.lineno}:{f.name}" for f in tb][-4:]
    return dict(assertion=assertion, tags=sorted(set(tags) | {"exc:" + type(exc).__name__}),
                message=f"{type(exc).__name__}: {str(exc)[:300]}", case=case,
                detail={"traceback_tail": where})


def exc_in_code_under_test(exc):
    tb = traceback.extract_tb(exc.__traceback__)
    if not tb:
        return False
    last = tb[-1].filename
    return (REPO + os.sep) in last or "site-packages" in last or "/lib/python" in last


_MOD = None


def _init_worker(modname):
    global _MOD
    _MOD = importlib.import_module(modname)
    if hasattr(_MOD, "setup_worker"):
        _MOD.setup_worker()


def _run_chunk(chunk):
    out = []
    for case in chunk:
        t0 = time.time()
        try:
            res = _MOD.run_case(case)
        except Exception as exc:  # noqa
            if exc_in_code_under_test(exc) and not os.environ.get("VERIF_STRICT_HARNESS"):
                res = dict(evals=1, keys=[], stats={"crashes_outside_oracle": 1},
                           violations=[crash_violation(exc, case, tags=["uncaught"])])
            else:
                res = dict(evals=0, keys=[], stats={}, violations=[],
                           harness_error=traceback.format_exc())
        res["wall"] = time.time() - t0
        res.setdefault("case", case)
        out.append(res)
    return out


def load_known(pid):
    path = os.path.join(VERIF, "known_findings.json")
    if not os.path.exists(path):
        return []
    with open(path) as fh:
        data = json.load(fh)
    return [e for e in data.get("findings", []) if e["property"] == pid and e["status"] == "known"]


def match_known(viol, known):
    for ent in known:
        m = ent["match"]
        if m.get("assertion") and m["assertion"] != viol["assertion"]:
            continue
        if any(t not in viol.get("tags", []) for t in m.get("tags_all", [])):
            continue
        if any(t in viol.get("tags", []) for t in m.get("tags_none", [])):
            continue
        return ent
    return None


def write_replay(pid, modname, viol):
    os.makedirs(os.path.join(OUT, "replays"), exist_ok=True)
    body = dict(property=pid, module=modname, assertion=viol["assertion"], tags=viol.get("tags", []),
                message=viol["message"], case=viol["case"], detail=viol.get("detail"))
    path = os.path.join(OUT, "replays", f"{pid}-{h(body)}.json")
    with open(path, "w") as fh:
        json.dump(body, fh, indent=1, default=str)
    return path


def run_property(modname, tier, seed, replay=None, budget_s=None):
    t_start = time.time()
    check_repo_binding()
    mod = importlib.import_module(modname)
    pid = mod.PID
    known = load_known(pid)

    if replay:
        with open(replay) as fh:
            body = json.load(fh)
        if hasattr(mod, "setup_worker"):
            mod.setup_worker()
        obs = []
        for _ in range(2):
            res = mod.run_case(body["case"])
            obs.append(sorted((v["assertion"], v["message"]) for v in res["violations"]))
        if obs[0] != obs[1]:
            print("HARNESS-ERROR replay not deterministic")
            return 2
        if any(a == body["assertion"] for a, _ in obs[0]):
            for a, m in obs[0]:
                print(f"REPLAY reproduces {a}: {m}")
            print(f"VIOLATION property={pid} replay={replay}")
            return 1
        print("REPLAY: violation not reproduced on this tree")
        return 0

    cases = list(mod.cases(tier))
    rng = random.Random(seed)
    rng.shuffle(cases)
    nchunks = max(1, min(len(cases), NPROC * 8))
    chunks = [cases[i::nchunks] for i in range(nchunks)]
    budget_s = budget_s or getattr(mod, "BUDGET", {}).get(tier)

    agg = dict(evals=0, keys=set(), stats={}, violations=[], samples=[], harness_errors=[],
               cases_done=0, cases_total=len(cases), capped=False)
    ctx = mp.get_context("fork")
    nproc = min(NPROC, len(chunks))
    with ctx.Pool(nproc, initializer=_init_worker, initargs=(modname,)) as pool:
        it = pool.imap_unordered(_run_chunk, chunks)
        while True:
            try:
                out = it.next(timeout=5)
            except StopIteration:
                break
            except mp.TimeoutError:
                # watchdog: a single case that runs away (e.g. state leaking between calls makes every call slower)
                # must not keep the check from reporting what it has
                if budget_s and time.time() - t_start > budget_s * 1.25:
                    agg["capped"] = True
                    pool.terminate()
                    break
                continue
            for res in out:
                agg["cases_done"] += 1
                agg.setdefault("walls", []).append((res.get("wall", 0), agg["cases_done"]))
                agg["evals"] += res.get("evals", 0)
                agg["keys"].update(res.get("keys", []))
                for k, v in res.get("stats", {}).items():
                    if isinstance(v, (int, float)):
                        agg["stats"][k] = agg["stats"].get(k, 0) + v
                    elif isinstance(v, list):
                        agg["stats"].setdefault(k, set()).update(v)
                agg["violations"].extend(res.get("violations", []))
                if res.get("harness_error"):
                    agg["harness_errors"].append(res["harness_error"])
                if res.get("sample") is not None and len(agg["samples"]) < 200:
                    agg["samples"].append(res["sample"])
            if budget_s and time.time() - t_start > budget_s:
                agg["capped"] = True
                pool.terminate()
                break

    if agg["harness_errors"]:
        print("HARNESS-ERROR in run_case:\n" + agg["harness_errors"][0])
        return 2

    vac = []
    if hasattr(mod, "finalize"):
        vac = mod.finalize(agg, tier) or []

    # ---- classify violations
    by_sig = {}
    for v in agg["violations"]:
        sig = (v["assertion"], tuple(sorted(t for t in v.get("tags", []) if not t.startswith("~"))))
        size = len(json.dumps(v["case"], default=str))
        if sig not in by_sig or size < by_sig[sig][0]:
            by_sig[sig] = (size, v)
    n_new, known_hit = 0, {}
    for sig, (_, v) in sorted(by_sig.items()):
        ent = match_known(v, known)
        if ent is not None:
            known_hit.setdefault(ent["id"], ent)
            continue
        n_new += 1
        if n_new <= 12:
            path = write_replay(pid, modname, v)
            print(f"  [{v['assertion']}] {v['message'][:240]}  tags={v.get('tags')}")
            print(f"VIOLATION property={pid} replay={path}")
    for ent in known_hit.values():
        print(f"KNOWN-FINDING: property={pid} {ent['id']}: {ent['what']}")
    # every known entry must be listed on the unchanged tree even when its
    # triggering inputs were not reached in a capped run
    n_viol_total = sum(1 for v in agg["violations"] if match_known(v, known) is None)

    # ---- evidence
    samples = agg["samples"]
    if len(samples) > 3:
        samples = [samples[0], samples[len(samples) // 2], samples[-1]]
    stats = {k: (sorted(v)[:50] if isinstance(v, set) else v) for k, v in agg["stats"].items()}
    cov = dict(evaluations=agg["evals"], distinct_nontrivial=len(agg["keys"]),
               rule=mod.RULE, samples=samples or [{"note": "no sample recorded"}],
               exhaustive=(not agg["capped"]) and agg["cases_done"] == agg["cases_total"],
               cases_total=agg["cases_total"], cases_done=agg["cases_done"],
               known_findings_hit=sorted(known_hit), vacuity_problems=vac, **stats)
    internal_caps = {k: v for k, v in stats.items() if isinstance(v, (int, float)) and v and
                     (k.startswith("explorations_cut_by") or k == "unexpanded_points")}
    if internal_caps:
        cov["exhaustive"] = False
        cov["cap"] = ("bounded exploration was cut inside some cases: " + json.dumps(internal_caps) +
                      "; everything below those caps was explored completely")
    if agg["capped"]:
        cov["cap"] = f"wall-clock budget {budget_s}s hit after {agg['cases_done']}/{agg['cases_total']} top-level cases"
    if mod.LEVEL == "model_checking":
        cov.setdefault("states", max(1, int(stats.get("states", len(agg["keys"])) or 1)))
        cov.setdefault("transitions", max(1, int(stats.get("transitions", agg["evals"]) or 1)))
        cov.setdefault("traces_validated_against_impl", agg["evals"])
    ev = dict(property_id=pid, tier=tier, seed=seed, level=mod.LEVEL, coverage=cov,
              assumptions=list(mod.ASSUMPTIONS), wall_s=round(time.time() - t_start, 2),
              violations=n_viol_total)
    os.makedirs(os.path.join(OUT, "evidence"), exist_ok=True)
    with open(os.path.join(OUT, "evidence", f"{pid}.json"), "w") as fh:
        json.dump(ev, fh, indent=1, default=str)
    print(f"{pid} tier={tier} seed={seed} cases={agg['cases_done']}/{agg['cases_total']} "
          f"evals={agg['evals']} distinct_nontrivial={len(agg['keys'])} violations={n_viol_total} "
          f"known={sorted(known_hit)} wall={ev['wall_s']}s" + (" CAPPED" if agg["capped"] else ""))
    for k, v in sorted(stats.items()):
        if not isinstance(v, list):
            print(f"    {k}={v}")
    walls = sorted((w for w, _ in agg.get("walls", [])), reverse=True)
    print(f"    slowest_cases_s={[round(w, 1) for w in walls[:4]]} sum_case_s={round(sum(walls), 1)}")
    if vac:
        for p in vac:
            print(f"HARNESS-ERROR vacuity: {p}")
        # a violation that was found stays a violation (exit 1) even if part of the exploration turned out vacuous
        return 1 if n_new else 2
    return 1 if n_new else 0
