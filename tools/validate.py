#!/usr/bin/env python3
"""validates MANIFEST.json and every evidence file against the schemas in /root/.vp (run with python3-vt)"""
import json, glob, sys, jsonschema
ok = True
m = json.load(open('/verif/MANIFEST.json'))
jsonschema.validate(m, json.load(open('/root/.vp/MANIFEST.schema.json')))
s = json.load(open('/root/.vp/EVIDENCE.schema.json'))
claimed = {c['property_id'] for c in m['checks']}
for pid in sorted(claimed):
    f = f'/verif/evidence/{pid}.json'
    try:
        ev = json.load(open(f)); jsonschema.validate(ev, s)
        print('ok', pid, ev['level'], ev['tier'], 'exhaustive' if ev['coverage'].get('exhaustive') else 'capped', ev['wall_s'])
    except Exception as e:
        ok = False; print('BAD', pid, str(e)[:200])
sys.exit(0 if ok else 1)
