#!/bin/bash
# usage: collect_seed.sh <PID> <seed-name>   (worktree /tmp/wt/<PID>)
# verifies the sub-agent's change in its scratch worktree and stores it under /verif/seeded/<seed-name>/
set -u
PID=$1; NAME=$2; WT=${3:-/tmp/wt/$PID}
OUT=/verif/seeded/$NAME
mkdir -p $OUT
cd $WT || exit 2
git diff -- polyply > $OUT/patch.diff
DEMO=$(ls demo_*.py | head -1)
cp $DEMO $OUT/demo.py
PYTHONPATH=$WT TQDM_DISABLE=1 /venv/bin/python $DEMO > $OUT/demo_with.log 2>&1; W=$?
BASE=$(python3 /tmp/wt/baseline.py $WT | head -1)
# git stash is shared by all worktrees of a repository: revert / re-apply the patch instead
git apply -R $OUT/patch.diff
PYTHONPATH=$WT TQDM_DISABLE=1 /venv/bin/python $DEMO > $OUT/demo_without.log 2>&1; WO=$?
git apply $OUT/patch.diff
echo "demo_with_change_exit=$W demo_without_change_exit=$WO baseline: $BASE lines_changed=$(grep -c '^[+-][^+-]' $OUT/patch.diff)"
