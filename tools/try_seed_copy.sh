#!/bin/bash
# usage: try_seed_copy.sh <seed-name> <PID> [tier]   like try_seed.sh, but on a scratch copy of /repo (VERIF_REPO), so that
# /repo is not touched while other jobs read it; evidence / replays of the run go to the scratch directory
NAME=$1; PID=$2; TIER=${3:-quick}
D=/tmp/seedtry/$NAME-$PID
rm -rf $D; mkdir -p /tmp/seedtry; cp -r /repo $D; rm -rf $D/.git
( cd $D && patch -p1 -s < /verif/seeded/$NAME/patch.diff ) || { echo "PATCH DOES NOT APPLY"; exit 2; }
cd /verif && VERIF_REPO=$D PYTHONPATH=$D VERIF_OUT=$D/_out ./check $PID --tier $TIER > /tmp/try_$NAME.log 2>&1; RC=$?
rm -rf $D
echo "$NAME vs $PID ($TIER, scratch copy): exit=$RC $(grep -c VIOLATION /tmp/try_$NAME.log) violation lines; $(grep -E '^  \[' /tmp/try_$NAME.log | head -2 | cut -c1-220)"
