#!/usr/bin/env python3
"""regenerates seeded/README.md from the meta.json files"""
import json, glob, os
rows = []
for f in sorted(glob.glob("/verif/seeded/*/meta.json")):
    m = json.load(open(f))
    name = f.split("/")[3]
    rows.append((name, m))
head = """# Seeded property-breaking changes

Each directory holds `patch.diff` (applies to the final /repo tree with `git -C /repo apply`; where a later fix changed the context, the sub-agent's original is kept next to it as `patch.original.diff`), `demo.py` (the sub-agent's demonstration: exit 1 with the change, 0 without),
`demo_with.log` / `demo_without.log` (my own re-run in the scratch worktree), and `meta.json`. The changes were written by fresh sub-agents that were given only the
text of one property and a scratch worktree (rounds 2 and 3 additionally one-line descriptions of the earlier changes for that property, to be avoided); every change
keeps the 464 baseline tests green (`tools/baseline.py <worktree>` -> missing=0). `tools/try_seed.sh <name> <PID>` applies a change to /repo, runs the quick check and
reverts. Round 1 = no suffix, round 2 = suffix `b`, round 3 = suffix `c`.

"""
n = len(rows)
first = sum(1 for _, m in rows if m["detection"].startswith("caught"))
head += f"{n} changes; {first} were reported by the check as it stood when the change arrived, {n - first} were missed at first and are reported after the alphabet / oracle was widened as described.\n\n"
head += "| change | property | what | needs | result |\n|---|---|---|---|---|\n"
body = "".join(f"| `{name}` | {m['property']} | {m['change']} | {m['needs_to_manifest']} | {m['detection']} |\n" for name, m in rows)
open("/verif/seeded/README.md", "w").write(head + body)
print(n, first)
