# executed by mkmanifest.py: add(pid, category, technique, text, note, design_ref)
add("C19", "exploration",
    "bounded-exhaustive input enumeration (all ACGT strings to length N) against a reference complement",
    "Every DNA sequence up to length 6 (quick) / 8 (thorough) in linear-terminal, linear-plain and circular form, with "
    "and without edge labels, is completed by the real complement_dsDNA and compared residue by residue and edge by edge "
    "with an independent Watson-Crick reference; involution and rejection of unknown names at every position are "
    "checked on the same set. The law is per-position, so exhausting all strings to length 6-8 covers every base at "
    "every position next to every neighbour.",
    "Trusts the 12-entry reference pairing table in pmc/props/c19.py and that input graphs have the shape polyply's "
    "readers produce (integer keys in order).", "§4 C19")

add("C16", "model_checking",
    "explicit-state BFS to closure over real NonBondEngine method calls, reference model compared in every state",
    "Breadth-first search over all add/remove/consolidate histories of a live NonBondEngine (2-4 nodes in 1-2 molecules, "
    "4 candidate points incl. one across the periodic boundary and one below the 0.1 nm floor, start flag, all node "
    "subsets for removal), run until no new canonical state appears, in cubic and orthorhombic boxes and with 5001 "
    "pre-loaded static points so that the multi-tree branch is taken. After every transition the four internal views are "
    "compared with a dict reference; in every distinct state all probe x node x exclusion-subset force queries are compared "
    "with brute-force minimum-image 12-6 gradients. Closure means every history of any length over this alphabet ends "
    "in a checked state.",
    "Trusts the brute-force reference in pmc/props/c16.py; candidate points are off the 0.1 nm / cut-off thresholds; "
    "rectangular boxes only; state copies share immutable KD-trees (faithfulness checked by replaying a history on a fresh engine).",
    "§3 C16")

for _p in ["C01", "C02", "C03", "C04", "C05", "C06", "C07", "C08", "C09", "C10", "C11", "C12", "C13", "C14",
           "C15", "C17", "C18", "C20"]:
    NOT_YET[_p] = "check under construction in this session (bounded exhaustive exploration applies; see DESIGN.md)"
