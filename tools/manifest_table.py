# executed by mkmanifest.py: add(pid, category, technique, text, note, design_ref)
add("C19", "exploration",
    "bounded-exhaustive input enumeration (all ACGT strings to length N) against a reference complement",
    "Every DNA sequence up to length 6 (quick) / 8 (thorough) in linear-terminal, linear-plain and circular form, with "
    "and without edge labels, is completed by the real complement_dsDNA and compared residue by residue and edge by edge "
    "with an independent Watson-Crick reference; involution and rejection of unknown names at every position are "
    "checked on the same set. The law is per-position, so exhausting all strings to length 6-8 covers every base at "
    "every position next to every neighbour.",
    "Trusts the 12-entry reference pairing table in pmc/props/c19.py and that input graphs have the shape polyply's "
    "readers produce (integer keys in order).", "§4 C19")

for _p in ["C01", "C02", "C03", "C04", "C05", "C06", "C07", "C08", "C09", "C10", "C11", "C12", "C13", "C14",
           "C15", "C16", "C17", "C18", "C20"]:
    NOT_YET[_p] = "check under construction in this session (bounded exhaustive exploration applies; see DESIGN.md)"
