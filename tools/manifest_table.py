# executed by mkmanifest.py: add(pid, category, technique, text, note, design_ref)
add("C19", "exploration",
    "bounded-exhaustive input enumeration (all ACGT strings to length N) against a reference complement",
    "Every DNA sequence up to length 6 (quick) / 8 (thorough) in linear-terminal, linear-plain and circular form, with "
    "and without edge labels, is completed by the real complement_dsDNA and compared residue by residue and edge by edge "
    "with an independent Watson-Crick reference; involution and rejection of unknown names at every position are "
    "checked on the same set. The law is per-position, so exhausting all strings to length 6-8 covers every base at "
    "every position next to every neighbour.",
    "Trusts the 12-entry reference pairing table in pmc/props/c19.py and that input graphs have the shape polyply's "
    "readers produce (integer keys in order).", "§4 C19")

add("C16", "model_checking",
    "explicit-state BFS to closure over real NonBondEngine method calls, reference model compared in every state",
    "Breadth-first search over all add/remove/consolidate histories of a live NonBondEngine (2-4 nodes in 1-2 molecules, "
    "4 candidate points incl. one across the periodic boundary and one below the 0.1 nm floor, start flag, all node "
    "subsets for removal), run until no new canonical state appears, in cubic and orthorhombic boxes and with 5001 "
    "pre-loaded static points so that the multi-tree branch is taken. After every transition the four internal views are "
    "compared with a dict reference; in every distinct state all probe x node x exclusion-subset force queries are compared "
    "with brute-force minimum-image 12-6 gradients. Closure means every history of any length over this alphabet ends "
    "in a checked state.",
    "Trusts the brute-force reference in pmc/props/c16.py; candidate points are off the 0.1 nm / cut-off thresholds; "
    "rectangular boxes only; state copies share immutable KD-trees (faithfulness checked by replaying a history on a fresh engine).",
    "§3 C16")

add("C01", "exploration",
    "bounded-exhaustive input-shape enumeration against a reference instantiation model",
    "Every connected residue graph up to 4 (5) residues under every residue-id labelling, every resname assignment over four "
    "blocks of 1-4 atoms, start ids 1 and 5, without links and with every single link template (thorough: pairs and triples), "
    "is mapped by the real MapToMolecule/ApplyLinks and the atoms table and per-instance block interactions are compared "
    "exactly with an independent re-indexing model. Off-by-one errors in atom/charge-group/resid offsets show on the smallest "
    "mixed-size inputs, all of which are enumerated.",
    "Trusts pmc/ref_genparams.py (instantiate); block sizes <= 4 atoms, <= 5 residues; blocks use resid 1 in their own table.",
    "§2 C01")
add("C02", "exploration",
    "bounded-exhaustive input-shape enumeration against a brute-force link-matching reference (soundness and completeness)",
    "All ordered subsets of <=2 (thorough: selected triples) of a 17-template link alphabet over all labelled connected residue "
    "graphs n<=4 (5) and all resname assignments; the molecule produced by the real pipeline must equal the reference "
    "(interactions with parameters/meta/version, atom-level edges, replaced attributes, removed atoms) exactly, which is both "
    "'applied wherever it matches' and 'nowhere else'. The reference enumerates every injective residue assignment.",
    "Trusts pmc/ref_genparams.py (apply_links) as the literal reading of the property: induced residue-level match with linktype, "
    "vermouth's documented order table, unique atom match, non-edge and pattern vetoes, later definition wins.",
    "§2 C02")

add("C10", "exploration",
    "bounded-exhaustive input enumeration with an independent recount of inter-residue atom edges",
    "For force fields in which all, some or no residue pair has an applicable link, over every labelled connected residue graph "
    "n<=4 and resname assignment, the set of pairs reported by find_missing_edges / by gen_params' WARNING records must equal "
    "exactly the residue edges without an atom-level edge in the molecule that was built (recounted from the molecule's own "
    "edges and resids); the gen_coords connectivity gate is run on 7 molecule shapes.",
    "Recount uses the atoms' resid attribute; known finding F10 (gate ignores splits inside one residue) is tolerated by predicate.",
    "§2 C10")
add("C11", "exploration",
    "bounded-exhaustive program-level round trip (gen_params -> file -> polyply topology reader) against the captured molecule",
    "Every force-field variant x labelled residue graph (n<=3 quick / 4 thorough) x resname assignment is run through the real "
    "gen_params on files; the file must exist for every input the reference accepts, and re-reading it through a generated .top "
    "must give the same atoms, the same interaction multiset with numeric parameters and ifdef/ifndef guards, and (when the "
    "reference says no link is missing and every residue edge is a bond/constraint) an isomorphic labelled residue graph.",
    "Decided for the installed dependency versions only (vermouth 0.15.0, networkx 3.6.1); meta keys the file format cannot "
    "carry (version/group/edge) are not compared.",
    "§2 C11")
add("C14", "exploration",
    "bounded-exhaustive enumeration of exclusion-distance combinations with a BFS graph-distance recount",
    "All exclusion-distance combinations {1,2,3}^3 and {0..4}^2 over blocks of 2-4 atoms, four bond-making link sets, all "
    "labelled connected residue graphs n<=4 (5): the effective exclusion set of the built molecule (molecule-wide distance by BFS "
    "plus explicit exclusions; for n<=2 read from the written .itp) must equal the per-atom-pair rule of the property.",
    "Edge graph equals bond graph on the alphabet; reference ref_genparams.expected_exclusions.",
    "§2 C14")

add("C13", "exploration",
    "metamorphic bounded-exhaustive enumeration of all relabellings / orders / call histories",
    "For every base input all n! node-key relabellings, all n! insertion orders, all 2^|E| edge orientations, edge insertion "
    "orders, all block-definition orders, all orders of non-conflicting links, both file splits, and all sequences of <=3 "
    "(thorough 4) gen_params calls over 6 representative inputs in one process are executed and the canonical output compared "
    "with the untransformed run / with a fresh interpreter. No reference model is needed, so any order or history dependence in "
    "dict/graph iteration or in-place force-field mutation shows as a concrete pair of runs.",
    "Resids fixed under relabelling; first header line of files ignored; known finding F13 (non-edge vetoes depend on link order) tolerated by predicate.",
    "§2 C13")

add("C17", "model_checking",
    "stateless deviation-bounded exploration of the real gen_coords under a chooser with injected step / attempt failures",
    "Every schedule of up to 3 (thorough 4) injected placement-step failures and abandoned molecule attempts, combined with one "
    "direction and one start-point deviation, is executed against the real gen_coords on linear, branched and cyclic molecules "
    "with and without pre-positioned residues, for nrewind 1-5 and attempt limits 0-2; executions always run to completion. "
    "Monitors mirror every engine event into a dict and check at every step that the parent is positioned, the residue is "
    "placed once, everything later in the growth order is unpositioned (rollback complete), retries start clean, accepted "
    "molecules are frozen and the end state has one position per residue. The rewind, retry and give-up branches the suite never "
    "runs are taken thousands of times.",
    "6 axis directions as the direction sample; injected failure == update_positions returning False without placing; "
    "horizon 400 chooser calls (cuts counted); ownership of all random sources proved per execution by comparing RNG states.",
    "§3 C17")

add("C03", "model_checking",
    "stateless deviation-bounded exploration of the real gen_coords over an enumerated option/topology space",
    "Every [ molecules ] list of <=3 entries over four molecule types with counts 1-2, combined with box source (-box, two "
    "densities), input structure (none, complete, partial prefix at atom or centre level), -res and grid options, is built by "
    "the real gen_coords for every trajectory within one direction and one start-point deviation; the written .gro is compared "
    "line by line with the reference expansion of the topology text and the box line with the requested / inherited / density box.",
    "6 axis directions; density systems use 0.15 nm residues so that the cut-off stays below half the box; masses 72 per atom.",
    "§3 C03")
add("C04", "model_checking",
    "stateless exploration of the real gen_coords over all supplied/missing splits under injected failure schedules",
    "For two 3-4 molecule systems every prefix split of the residue list (atom level and centre level), every -res name, and an "
    "ignored type at first/middle/last position is run under every schedule of <=2 injected step/attempt failures plus one "
    "direction deviation. Supplied atoms must keep their input coordinates bit-exactly (memory) and string-exactly (file), "
    "centre-only residues must be backmapped around their centre, and the set of residues that received a generated position "
    "must be exactly the missing or named ones.",
    "Input structures list supplied residues in topology order omitting -res residues; ignored molecules must themselves have coordinates.",
    "§3 C04")
add("C05", "model_checking",
    "stateless deviation-bounded exploration of the real gen_coords with brute-force geometric monitors",
    "On 15 systems (mixed sizes, branched/cyclic graphs, 2.5 nm dense boxes, an orthorhombic box, start points on the periodic "
    "boundary, step factors, force limits, one off-lattice start point) every trajectory within 2 direction deviations and 1 "
    "start deviation (thorough 3, diagonal bundles) is executed; at every accepted placement the monitor recomputes minimum-image "
    "step length, containment in the box, the 0.1 nm floor against all positioned residues and the 12-6 force from positioned "
    "non-neighbours within the cut-off.",
    "Lattice direction bundles; sizes fixed via [ volumes ]; pairs exactly on the cut-off are don't-care.",
    "§3 C05")

add("C08", "exploration",
    "bounded-exhaustive enumeration of include trees from a grammar against a reference flattener and the generator's own prediction",
    "About 1100 tree shapes (force-field layout x #define placement x conditional-include kind for a molecule incl. #else "
    "branches with an alternative definition x #error kind and position x conditional include after an inline molecule x nested "
    "directories with ../-relative includes x missing file behind an inactive condition) each combined with a rotating subset of "
    "all [ molecules ] lists <=3 entries and with comment/blank/whitespace noise are written to disk and read with the real reader "
    "from a foreign working directory; the digest must equal that of the reference-flattened single file and the generator's "
    "prediction, #error must abort iff active, instances of a repeated name must be independent copies.",
    "Whole-section-unit files, #define outside conditionals; known findings F08* (pragmas after a started moleculetype are not evaluated) tolerated by predicate.",
    "§4 C08")

add("C09", "exploration",
    "bounded-exhaustive enumeration of type tables / wildcard masks / listing directions against a grompp-style reference lookup",
    "Dihedral type tables built from every subset of <=2 (3) of the 16 wildcard masks in both writing directions with 1-3 terms, "
    "both listing directions of the interaction and 1-3 molecule instances; bonds/angles/constraints with exact/reversed/absent "
    "entries; #define macros; OPLS bond_type indirection; every subset of explicit nonbond_params x gen-pairs x comb-rule. The "
    "reference selects the candidates by brute force and demands a minimally wildcarded one, identical terms in every instance, "
    "explicit pair parameters winning, and sigma/epsilon reproducing C6/C12.",
    "Combination-rule values themselves are not judged; ties between equally specific entries may go either way.",
    "§4 C09")

add("C12", "exploration",
    "bounded-exhaustive enumeration of sequences, line breakings and macro specifications against independent tables / tree arithmetic",
    "All DNA/RNA strings of length 2-5 (6) and all protein letters at every position, through .fasta and .ig (linear and "
    "circular) under every one of the 2^(L-1) line breakings; .txt name lists under every line breaking; -seq lists; gen_seq "
    "with 9 macro shapes x all sequences of <=3 macros x connect records x terminal renamings x labels, written to .json and "
    "read back through the reader gen_params uses. Expected names, numbering and edges come from independently transcribed "
    "one-letter tables and closed-form balanced-tree edges.",
    "Single-nucleotide sequences not judged; 0-based connect indices as implemented; the legacy 'links' JSON key (needs an older networkx) is not exercised.",
    "§4 C12")

add("C20", "fault_enumeration",
    "exhaustive fault injection at every stage boundary x output-path state, with a follow-up successful run",
    "For each of the three programs an exception is raised at the entry of every call in the top-level function (14 / 17 / 5 "
    "stages) and, for the serialisers, after 1-3 written lines, for each of three states of the output path; directory "
    "listings with content hashes are compared before/after the failure and again after a later successful run of the same "
    "program in the same process; the fault-free runs check completeness and GROMACS-style backups.",
    "Stage list = call sites of gen_params / gen_coords / gen_seq as of the pinned tree (pmc/props/c20.py); a failure of the final DeferredFileWriter.write itself is only judged for its immediate effect.",
    "§5 C20")

add("C06", "model_checking",
    "stateless exploration of the real gen_coords with the optimiser answer behind the chooser",
    "For residues of 1-5 atoms (planar, chiral with user templates) with 0-3 bonded neighbours in linear and branched molecules, "
    "two backmapping factors and an input with pre-existing atoms, each residue's orientation answer is taken from the real "
    "L-BFGS result and from all 216 angle triples over six angles (one deviating residue per execution); every backmapped "
    "residue is checked for centre of geometry, Gram-matrix equality with the template taken by atom name, and preserved sign "
    "of every atom quadruple's signed volume.",
    "Templates are taken as polyply holds them; angle alphabet finite.",
    "§3 C06")
add("C07", "model_checking",
    "stateless deviation-bounded exploration of the real gen_coords over a build-file grammar",
    "66 build files (geometric restraints in/out with sub-ranges, growth-direction cones, end-to-end distance restraints, "
    "-cycles on rings of 3-6, persistence length with every sampled distance as an option) are each built for every trajectory "
    "within 2 direction deviations and one start deviation; independent predicates are evaluated at every accepted placement "
    "and on the final positions; the cycle's closing pair is recomputed as the ring edge missing from the observed growth tree.",
    "Axis directions (rings: axis + face diagonals); rotating default direction so that restrained walks terminate; systems "
    "capped at 700 executions are reported in the evidence.",
    "§3 C07")

add("C18", "exploration",
    "bounded-exhaustive enumeration of ranges and specification strings against half-open reference selections",
    "Every [ molecule ] index range and every residue-id range (0..6) for each molecule / residue name on a topology with "
    "interleaved repeated molecule names, for two directive kinds, plus overlapping blocks; every present/omitted-field "
    "combination of -start and of -lig host / ligand strings (ligands executed through the real gen_coords and measured by "
    "minimum image); every set partition of 2- and 3-atom residues for -split, at the processor and through gen_coords.",
    "Sizes via [ volumes ] except in the dedicated no-volume ligand cases; specs naming no molecule are not generated for -start.",
    "§5 C18")

add("C15", "exploration",
    "bounded-exhaustive enumeration of residue definitions / virtual-site parameters / build files against independent geometry",
    "All virtual-site constructions on a parameter grid are compared with the GROMACS manual formulas and re-evaluated under the "
    "24 proper cube rotations x 3 translations; all ordered pairs of residue definitions from every connected atom graph <=4 "
    "atoms (two namings, two bond lengths) are read as one molecule and templated by the real GenerateTemplates under 3 initial "
    "layouts: isomorphic definitions must share key and size, different name multisets must not, templates are centred and "
    "complete, a reported success implies all targets within tolerance (recomputed independently); 16 build-file variants check "
    "that user templates and sizes are used verbatim and not regenerated.",
    "COM/COW virtual_sitesn with unequal weights not judged; layouts are 3 fixed seeds passed through the layout seam.",
    "§5 C15")


