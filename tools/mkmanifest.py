#!/usr/bin/env python3
"""Regenerates MANIFEST.json from the table below (single source of truth)."""
import json, os, sys
VERIF = os.path.dirname(os.path.dirname(os.path.abspath(__file__)))

# pid -> (category, technique, text, note, design_ref)
CHECKS = {}
NOT_YET = {}


def add(pid, category, technique, text, note, ref):
    CHECKS[pid] = dict(category=category, technique=technique, text=text, note=note, ref=ref)


exec(open(os.path.join(VERIF, "tools", "manifest_table.py")).read())

ALL = [f"C{i:02d}" for i in range(1, 21)]
checks = []
for pid in ALL:
    if pid not in CHECKS:
        continue
    c = CHECKS[pid]
    checks.append(dict(
        property_id=pid,
        quick_cmd=f"./check {pid} --tier quick",
        thorough_cmd=f"./check {pid} --tier thorough",
        evidence_file=f"/verif/evidence/{pid}.json",
        replay_cmd_template=f"./check {pid} --replay {{path}}",
        engine="pmc",
        level_claimed=dict(category=c["category"], text=c["text"], design_ref=c["ref"]),
        level_note=c["note"],
        technique=c["technique"],
    ))
manifest = dict(
    version=1,
    setup_cmd="./check setup",
    hooks=dict(guard="POLYPLY_VERIF",
               enable="no source hooks: checks import polyply from /repo (editable install) and interpose by "
                      "replacing module attributes inside the checker process; POLYPLY_VERIF=1 is exported by ./check for form",
               baseline_off_cmd="cd /repo && /venv/bin/python -m pytest -ra -q -p no:cacheprovider --timeout=900 "
                                "--continue-on-collection-errors",
               source_commits=[], add_only=True),
    engines=[dict(name="pmc", path="/verif/pmc",
                  serves_properties=sorted(CHECKS),
                  kind_free_text="hand-written bounded-exhaustive explorers for Python: E1 stateless deviation-bounded "
                                 "choice explorer over the real code with all random sources and faults behind a chooser; "
                                 "E2 explicit-state BFS to closure over real method calls with a reference model; "
                                 "E3 exhaustive input-shape enumeration against reference models")],
    checks=checks,
    notes="See DESIGN.md. exit 0 = held on everything explored (KNOWN-FINDING lines allowed), 1 = VIOLATION, 2 = harness error.",
    not_applicable=[dict(property_id=p, reason=NOT_YET[p]) for p in ALL if p not in CHECKS],
)
with open(os.path.join(VERIF, "MANIFEST.json"), "w") as fh:
    json.dump(manifest, fh, indent=1)
print("wrote MANIFEST.json with", len(checks), "checks,", len(manifest["not_applicable"]), "not claimed")
