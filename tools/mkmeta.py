#!/usr/bin/env python3
"""usage: mkmeta.py <seed-name> <PID> <change> <needs> <detection> ; writes seeded/<name>/meta.json from the logs collect_seed.sh left"""
import json, sys
name, pid, change, needs, detection = sys.argv[1:6]
d = f"/verif/seeded/{name}"
meta = {"property": pid, "change": change, "needs_to_manifest": needs,
        "verified": {"how": "tools/collect_seed.sh in the sub-agent's scratch worktree: demo with change exit 1, without exit 0, tools/baseline.py missing=0",
                     "demo_with": open(d + "/demo_with.log").read()[-600:], "demo_without": open(d + "/demo_without.log").read()[-300:]},
        "detection": detection, "checked_with": f"tools/try_seed.sh {name} {pid}"}
json.dump(meta, open(d + "/meta.json", "w"), indent=1)
