#!/bin/bash
# usage: try_seed.sh <seed-name> <PID> [tier]   applies the patch to /repo, runs the check, reverts
NAME=$1; PID=$2; TIER=${3:-quick}
cd /repo && git apply /verif/seeded/$NAME/patch.diff || { echo "PATCH DOES NOT APPLY"; exit 2; }
cd /verif && ./check $PID --tier $TIER > /tmp/try_$NAME.log 2>&1; RC=$?
git -C /repo checkout -- .
echo "$NAME vs $PID ($TIER): exit=$RC $(grep -c VIOLATION /tmp/try_$NAME.log) violation lines; $(grep -E '^  \[' /tmp/try_$NAME.log | head -2 | cut -c1-220)"
