#!/usr/bin/env python3
"""Mechanical mutation campaign (detection experiment, not a check): single-token changes in the files the properties are
anchored in, each applied to a scratch copy of /repo under /tmp/mut (never to /repo itself).  A mutant is first run
against the repository's baseline tests; only mutants the tests accept are run against the quick checks of the properties
anchored in the mutated file (VERIF_REPO / PYTHONPATH point to the copy, VERIF_OUT keeps evidence and replays out of
/verif).  Results: /verif/seeded/mutation_campaign.jsonl (one line per mutant).

usage: mutate.py [--per-file N] [--jobs J] [--seed S] [--files a.py b.py ...]
"""
import argparse, json, os, random, re, shutil, subprocess, sys, time
from concurrent.futures import ThreadPoolExecutor

REPO = "/repo"
SCRATCH = "/tmp/mut"
BASE = "/tmp/mut/base"      # snapshot of /repo taken when the campaign starts: all mutants of one campaign share it
OUTFILE = "/verif/seeded/mutation_campaign.jsonl"
QUICK_ORDER = ["C20", "C19", "C09", "C18", "C08", "C15", "C12", "C16", "C10", "C11", "C14", "C01", "C04", "C05", "C03", "C06", "C17",
               "C13", "C02", "C07"]

OPS = [
    (r"(?<![<>=!])<=(?!=)", "<", "le->lt"), (r"(?<![<>=!-])<(?![<=])", "<=", "lt->le"),
    (r"(?<![<>=!])>=(?!=)", ">", "ge->gt"), (r"(?<![<>=!-])>(?![>=])", ">=", "gt->ge"),
    (r"==", "!=", "eq->ne"), (r"!=", "==", "ne->eq"),
    (r"\band\b", "or", "and->or"), (r"\bor\b", "and", "or->and"),
    (r"\bnot ", "", "drop-not"),
    (r"\[0\]", "[-1]", "first->last"), (r"\[-1\]", "[0]", "last->first"),
    (r"\bTrue\b", "False", "true->false"), (r"\bFalse\b", "True", "false->true"),
    (r"\bcontinue\b", "break", "continue->break"), (r"\bbreak\b", "continue", "break->continue"),
    (r" \+ 1\b", " - 1", "plus1->minus1"), (r" - 1\b", " + 1", "minus1->plus1"), (r"\+1\b", "-1", "plus1->minus1"), (r"-1\b", "+1", "minus1->plus1"),
    (r" \+ ", " - ", "plus->minus"), (r" - ", " + ", "minus->plus"),
    (r"\bmin\(", "max(", "min->max"), (r"\bmax\(", "min(", "max->min"),
    (r"\[1:\]", "[:-1]", "tail->init"), (r"\[:-1\]", "[1:]", "init->tail"),
    (r"\.append\(", ".insert(0, ", "append->prepend"),
    (r"\bin range\(1, ", "in range(0, ", "range1->range0"),
]


def anchors():
    out = {}
    for ln in open("/verif/properties.jsonl"):
        d = json.loads(ln)
        for f in d["anchors"]["files"]:
            if f.endswith(".py") and "/src/" in f:
                out.setdefault(f, []).append(d["id"])
    return out


def code_lines(text):
    """indices of lines that are code (outside docstrings / comments / messages)"""
    out, in_doc = [], False
    for i, ln in enumerate(text.splitlines()):
        s = ln.strip()
        q = s.count('"""') + s.count("'''")
        if in_doc:
            if q % 2:
                in_doc = False
            continue
        if q % 2:
            in_doc = True
            continue
        if q:
            continue
        if not s or s.startswith("#") or s.startswith(("import ", "from ", "def ", "class ", "@", "LOGGER", "msg", "raise ", '"', "'")):
            continue
        if "LOGGER." in s or "msg" in s.split("=")[0] or "format(" in s:
            continue
        out.append(i)
    return out


def mutants_of(path, text):
    lines = text.splitlines(keepends=True)
    for i in code_lines(text):
        code = lines[i].split("#")[0]
        for pat, rep, name in OPS:
            for k, m in enumerate(re.finditer(pat, code)):
                new = code[:m.start()] + rep + code[m.end():] + lines[i][len(code):]
                if new != lines[i]:
                    yield dict(file=path, line=i + 1, op=name, occurrence=k, old=lines[i].rstrip("\n"), new=new.rstrip("\n"))


def run(cmd, env, timeout):
    t0 = time.time()
    try:
        p = subprocess.run(cmd, shell=True, env=env, stdout=subprocess.PIPE, stderr=subprocess.STDOUT, timeout=timeout, text=True)
        return p.returncode, p.stdout, time.time() - t0
    except subprocess.TimeoutExpired as exc:
        return 124, (exc.stdout or b"").decode() if isinstance(exc.stdout, bytes) else (exc.stdout or ""), time.time() - t0


def evaluate(job):
    mid, mut, pids, nproc = job
    d = f"{SCRATCH}/{mid}"
    shutil.rmtree(d, ignore_errors=True)
    shutil.copytree(BASE, d)
    p = os.path.join(d, mut["file"])
    lines = open(p).read().splitlines(keepends=True)
    assert lines[mut["line"] - 1].rstrip("\n") == mut["old"]
    lines[mut["line"] - 1] = mut["new"] + "\n"
    open(p, "w").write("".join(lines))
    res = dict(mut, id=mid, properties=pids)
    env = dict(os.environ, PYTHONPATH=d, PYTHONDONTWRITEBYTECODE="1")
    rc, out, dt = run(f"/venv/bin/python -m py_compile {p}", env, 60)
    if rc != 0:
        res["status"] = "does-not-compile"
    else:
        rc, out, dt = run(f"python3 /verif/tools/baseline.py {d}", env, 1500)
        res["baseline_s"] = round(dt)
        if rc != 0:
            res["status"] = "killed-by-repository-tests"
            res["baseline"] = out.splitlines()[0] if out else ""
        else:
            res["status"] = "survived"
            res["checks"] = {}
            cenv = dict(env, VERIF_REPO=d, VERIF_OUT=f"{d}/_verif_out", VERIF_NPROC=str(nproc))
            for pid in [q for q in QUICK_ORDER if q in pids]:
                rc, out, dt = run(f"cd /verif && ./check {pid} --tier quick", cenv, 2400)
                first = next((ln for ln in out.splitlines() if ln.startswith("  [")), "")
                res["checks"][pid] = dict(rc=rc, s=round(dt), first=first[:300])
                if rc == 1:
                    res["status"] = "killed-by-check"
                    res["killed_by"] = pid
                    break
                if rc not in (0, 1):
                    res["status"] = "check-error"
                    res["error_tail"] = out[-600:]
                    break
    shutil.rmtree(d, ignore_errors=True)
    with open(OUTFILE, "a") as fh:
        fh.write(json.dumps(res) + "\n")
    print(f"{mid} {mut['file'].split('/')[-1]}:{mut['line']} {mut['op']}: {res['status']} {res.get('killed_by', '')}", flush=True)
    return res


def main():
    ap = argparse.ArgumentParser()
    ap.add_argument("--per-file", type=int, default=8)
    ap.add_argument("--jobs", type=int, default=4)
    ap.add_argument("--nproc", type=int, default=4)
    ap.add_argument("--seed", type=int, default=0)
    ap.add_argument("--files", nargs="*")
    a = ap.parse_args()
    os.makedirs(SCRATCH, exist_ok=True)
    shutil.rmtree(BASE, ignore_errors=True)
    shutil.copytree(REPO, BASE, ignore=shutil.ignore_patterns(".git", "__pycache__", "*.pyc"))
    anc = anchors()
    files = a.files or sorted(anc)
    rng = random.Random(a.seed)
    done = set()
    if os.path.exists(OUTFILE):
        for ln in open(OUTFILE):
            r = json.loads(ln)
            done.add((r["file"], r["line"], r["op"], r["occurrence"]))
    jobs = []
    for f in files:
        f = f if f.startswith("polyply/") else "polyply/src/" + f
        text = open(os.path.join(BASE, f)).read()
        ms = [m for m in mutants_of(f, text) if (m["file"], m["line"], m["op"], m["occurrence"]) not in done]
        rng.shuffle(ms)
        # at most one mutant per line, spread over the file
        seen, pick = set(), []
        for m in ms:
            if m["line"] in seen:
                continue
            seen.add(m["line"])
            pick.append(m)
            if len(pick) == a.per_file:
                break
        for m in pick:
            jobs.append((f"s{a.seed}-{len(jobs):04d}", m, anc.get(f, []), a.nproc))
    print(f"{len(jobs)} mutants over {len(files)} files", flush=True)
    os.makedirs(SCRATCH, exist_ok=True)
    with ThreadPoolExecutor(a.jobs) as ex:
        results = list(ex.map(evaluate, jobs))
    tally = {}
    for r in results:
        tally[r["status"]] = tally.get(r["status"], 0) + 1
    print(json.dumps(tally))


if __name__ == "__main__":
    main()
