#!/usr/bin/env python3
"""Runs the repo's baseline test command and compares with /root/.vp/BASELINE.json stable_pass."""
import json, subprocess, sys, tempfile, os, xml.etree.ElementTree as ET
b = json.load(open('/root/.vp/BASELINE.json'))
repo = sys.argv[1] if len(sys.argv) > 1 else '/repo'
fd, path = tempfile.mkstemp(suffix='.xml'); os.close(fd)
cmd = b['cmd'].replace('/repo', repo).replace('<file>', path)
env = dict(os.environ); env.pop('POLYPLY_VERIF', None)
subprocess.run(cmd, shell=True, stdout=subprocess.DEVNULL, stderr=subprocess.DEVNULL, env=env)
passed = set()
for tc in ET.parse(path).getroot().iter('testcase'):
    if not any(c.tag in ('failure', 'error', 'skipped') for c in tc):
        passed.add(f"{tc.get('classname')}::{tc.get('name')}")
os.unlink(path)
missing = [t for t in b['stable_pass'] if t not in passed]
print(f"passed={len(passed)} baseline={len(b['stable_pass'])} missing={len(missing)}")
for m in missing[:20]: print("  MISSING", m)
sys.exit(1 if missing else 0)
