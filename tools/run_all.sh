#!/bin/bash
# usage: run_all.sh [tier] ; honours VERIF_SEED
cd /verif
TIER=${1:-quick}
for i in $(seq -w 1 20); do
  s=$(date +%s)
  out=$(./check C$i --tier $TIER 2>&1); rc=$?
  e=$(date +%s)
  echo "C$i rc=$rc $((e-s))s $(echo "$out" | grep -E "^C$i tier" | cut -c1-160) $(echo "$out" | grep -c VIOLATION) viol"
done
