#!/usr/bin/env python3
"""summarises seeded/mutation_campaign.jsonl; survivors are classified in seeded/mutation_survivors.json (hand-written
judgement: equivalent with respect to the properties / led to a widening)"""
import json, collections, os
rows = [json.loads(l) for l in open("/verif/seeded/mutation_campaign.jsonl")]
c = collections.Counter(r["status"] for r in rows)
byfile = collections.defaultdict(collections.Counter)
for r in rows:
    byfile[r["file"].split("/")[-1]][r["status"]] += 1
print(f"{len(rows)} mutants: " + ", ".join(f"{k} {v}" for k, v in sorted(c.items())))
killers = collections.Counter(r.get("killed_by") for r in rows if r["status"] == "killed-by-check")
print("killed by check: " + ", ".join(f"{k} {v}" for k, v in sorted(killers.items())))
judged = {}
p = "/verif/seeded/mutation_survivors.json"
if os.path.exists(p):
    judged = json.load(open(p))
for r in rows:
    if r["status"] in ("survived", "check-error"):
        key = f"{r['file'].split('/')[-1]}:{r['line']}:{r['op']}"
        print(f"  survivor {key}: {r['old'].strip()[:70]} => {r['new'].strip()[:70]} | {judged.get(key, 'NOT YET JUDGED')}")
